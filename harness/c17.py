"""C17 - serialisation round-trips with the documented bit layout.

Model / spec: lean/CohdlVerif/Model/C17.lean (`countBits`, `toBits`, `fromBits` mirror std.count_bits / std.to_bits /
std.from_bits[T]; `specBits` / `specVal` are the documented layout: first record field / array element 0 in the least
significant bits).  Theorems (Props/C17.lean): round trips in both directions, exact width, layout, BitField ranges -
for every type composition, by structural recursion.

Ties (all against the working tree of /repo):
 (a) Python level, inside forked tasks: for generated type compositions (real cohdl classes written to a module
     file) `std.count_bits(T)`, and for every bit pattern b (exhaustive up to a width bound, sampled above)
     `std.from_bits[T](b)` walked field by field, `std.to_bits` of that object, and `std.to_bits` of the same
     value built with the ordinary constructors (no from_bits involved) through EVERY construction path of records
     (PY_MODES: keywords in / out of declaration order, positional, mixed, copy) - each compared bit by bit with the model.
 (a2) record class hierarchies (base .. derived, nesting record, array of derived) in one module / interpreter, every order of
     first use x first operation (count_bits / to_bits / from_bits): the documented result after every single operation.
 (b) through the compiler: an entity `inp -> from_bits[T] -> leaves on ports, -> to_bits -> rt` and
     `leaf ports -> constructors (every construction path, plus field-wise assignment to a default-constructed
     Variable, T(Null), T(Full)) -> to_bits -> ser / ser_<path>` is compiled, the emitted VHDL simulated on all / sampled
     patterns: the emitted logic must implement the same layout.  Snapshot forms (every compiled type): the value is held in a
     Variable, serialised, the Variable is REASSIGNED, then the bits are used - they must be the value at the call; from_bits
     results must not alias their argument; and (one composition per kind) bits taken in one coroutine state and used in a later one.
 (c) BitField: generated declarations (bits, ranges typed BitVector/Unsigned/Signed, nested sub-bitfields at
     offsets): every field read and every field write (on a Variable inside a compiled design and on constants)
     against `readPath` / `writePath`.
"""

import itertools
import json

from .common import Ctx, compile_many, fork_map, load_design_module, import_cohdl, InfraError
from . import lean_io
from .vhdl_sim import Design, VhdlTypeError, VhdlRuntimeError

# ---------------------------------------------------------------------------------------------------
# type descriptors (json-able):
#   ["bit"] ["bool"] ["bv",n] ["uns",n] ["sgn",n] ["arr",T,n] ["sarr",T,n]
#   ["rec", name, [T...], style]     style: ["flat"] | ["inherit", k1, k2..] (split points) | ["template", k]
#   ["enum", name, U, [member raw values as ints], flag]
#   ["sfix", w, exp] ["ufix", w, exp] ["ser", T]
# values (canonical, the same s-expressions as the Lean model prints):
#   (bit 0) (bool 1) (bv 0101) (uns w n) (sgn w i) (arr v..) (sarr v..) (rec v..) (enum v) (sfix w i) (ufix w n) (ser 0101)
# ---------------------------------------------------------------------------------------------------

LEAF = ("bit", "bool", "bv", "uns", "sgn", "sfix", "ufix")


def width(ty):
    """documented width (sum of the parts) - used only to size the enumeration"""
    k = ty[0]
    if k in ("bit", "bool"):
        return 1
    if k in ("bv", "uns", "sgn", "sfix", "ufix"):
        return ty[1]
    if k in ("arr", "sarr"):
        return ty[2] * width(ty[1])
    if k == "rec":
        return sum(width(f) for f in ty[2])
    if k == "enum":
        return width(ty[2])
    if k == "ser":
        return width(ty[1])
    raise ValueError(ty)


def depth(ty):
    k = ty[0]
    if k in LEAF:
        return 0
    if k in ("arr", "sarr", "ser"):
        return 1 + depth(ty[1])
    if k == "rec":
        return 1 + max(depth(f) for f in ty[2])
    if k == "enum":
        return 1 + depth(ty[2])


def ty_sexp(ty):
    k = ty[0]
    if k in ("bit", "bool"):
        return k
    if k in ("bv", "uns", "sgn"):
        return f"({k} {ty[1]})"
    if k in ("arr", "sarr"):
        return f"({k} {ty_sexp(ty[1])} {ty[2]})"
    if k == "rec":
        return "(rec " + " ".join(ty_sexp(f) for f in ty[2]) + ")"
    if k == "enum":
        return f"(enum {ty_sexp(ty[2])})"
    if k in ("sfix", "ufix"):
        return f"({k} {ty[1]} {ty[2]})"
    if k == "ser":
        return f"(ser {ty_sexp(ty[1])})"
    raise ValueError(ty)


def ty_short(ty):
    """stable readable signature of a composition (names dropped, styles kept)"""
    k = ty[0]
    if k in ("bit", "bool"):
        return k
    if k in ("bv", "uns", "sgn"):
        return f"{k}{ty[1]}"
    if k in ("arr", "sarr"):
        return f"{k}[{ty_short(ty[1])},{ty[2]}]"
    if k == "rec":
        st = ty[3]
        tag = {"flat": "", "inherit": "i" + ".".join(map(str, st[1:])), "template": f"t{st[1] if len(st) > 1 else ''}",
               "tinherit": "ti" + ".".join(map(str, st[1:]))}[st[0]]
        return f"rec{tag}(" + ",".join(ty_short(f) for f in ty[2]) + ")"
    if k == "enum":
        return f"{'flag' if ty[4] else 'enum'}<{ty_short(ty[2])}>{{{','.join(map(str, ty[3]))}}}"
    if k in ("sfix", "ufix"):
        return f"{k}{ty[1]}e{ty[2]}"
    if k == "ser":
        return f"ser<{ty_short(ty[1])}>"


def kinds_of(ty, out=None):
    out = set() if out is None else out
    out.add(ty[0] if ty[0] != "rec" else "rec-" + ty[3][0])
    if ty[0] in ("arr", "sarr", "ser"):
        kinds_of(ty[1], out)
    elif ty[0] == "rec":
        for f in ty[2]:
            kinds_of(f, out)
    elif ty[0] == "enum":
        out.add("flagenum" if ty[4] else "enum")
        kinds_of(ty[2], out)
    return out


# ---------------------------------------------------------------------------------------------------
# real cohdl types: python source
# ---------------------------------------------------------------------------------------------------

HEADER = """from __future__ import annotations
import cohdl
from cohdl import std, Bit, BitVector, Unsigned, Signed, Array, Port, Null, Full
from cohdl.std.bitfield import BitField, Field
"""


def pyexpr(ty):
    k = ty[0]
    if k == "bit":
        return "Bit"
    if k == "bool":
        return "bool"
    if k == "bv":
        return f"BitVector[{ty[1]}]"
    if k == "uns":
        return f"Unsigned[{ty[1]}]"
    if k == "sgn":
        return f"Signed[{ty[1]}]"
    if k == "arr":
        return f"Array[{pyexpr(ty[1])}, {ty[2]}]"
    if k == "sarr":
        return f"std.Array[{pyexpr(ty[1])}, {ty[2]}]"
    if k in ("rec", "enum"):
        return ty[1]
    if k == "sfix":
        return f"std.SFixed[{ty[2] + ty[1] - 1}:{ty[2]}]"
    if k == "ufix":
        return f"std.UFixed[{ty[2] + ty[1] - 1}:{ty[2]}]"
    if k == "ser":
        return f"std.Serialized[{pyexpr(ty[1])}]"
    raise ValueError(ty)


def value_expr(ty, v):
    """python source expression that builds the canonical value v (parsed s-expression) with ordinary constructors"""
    k = ty[0]
    assert v[0] == k, (ty, v)
    if k == "bit":
        return f"Bit({v[1]})"
    if k == "bool":
        return "True" if v[1] == "1" else "False"
    if k == "bv":
        return f'BitVector[{ty[1]}]("{v[1]}")'
    if k == "uns":
        return f"Unsigned[{ty[1]}]({v[2]})"
    if k == "sgn":
        return f"Signed[{ty[1]}]({v[2]})"
    if k == "arr":
        return f"{pyexpr(ty)}([" + ", ".join(value_expr(ty[1], e) for e in v[1:]) + "])"
    if k == "sarr":
        return f"{pyexpr(ty)}([" + ", ".join(value_expr(ty[1], e) for e in v[1:]) + "], _qualifier_=std.Value)"
    if k == "rec":
        return f"{ty[1]}(" + ", ".join(f"f{i}={value_expr(f, e)}" for i, (f, e) in enumerate(zip(ty[2], v[1:]))) + ", _qualifier_=std.Ref)"
    if k == "enum":
        return f"{ty[1]}._unsafe_init_({value_expr(ty[2], v[1])})"
    if k == "sfix":
        return f"{pyexpr(ty)}(raw=Signed[{ty[1]}]({v[2]}))"
    if k == "ufix":
        return f"{pyexpr(ty)}(raw=Unsigned[{ty[1]}]({v[2]}))"
    raise ValueError(ty)


def member_literal(u, raw):
    """enumerator initialiser for the underlying type u and the raw pattern (int over the serialised width)"""
    bits = format(raw, f"0{width(u)}b")
    if u[0] == "bv":
        return '"' + bits + '"'
    if u[0] == "uns":
        return str(raw)
    if u[0] == "sgn":
        return str(raw - (1 << u[1]) if bits[0] == "1" else raw)
    return value_expr(u, parse_sexp(spec_decode(u, bits)))


def class_defs(ty, out):
    """append the class definitions needed by ty (inner first) to out"""
    k = ty[0]
    if k in ("arr", "sarr", "ser"):
        class_defs(ty[1], out)
    elif k == "enum":
        class_defs(ty[2], out)
        name, u, members, flag = ty[1], ty[2], ty[3], ty[4]
        lines = [f"class {name}(std.{'FlagEnum' if flag else 'Enum'}[{pyexpr(u)}]):"]
        for i, m in enumerate(members):
            lines.append(f"    M{i} = {member_literal(u, m)}")
        out.append("\n".join(lines))
    elif k == "rec":
        name, fields, style = ty[1], ty[2], ty[3]
        for f in fields:
            class_defs(f, out)
        if style[0] == "flat":
            out.append(f"class {name}(std.Record):\n" + "\n".join(f"    f{i}: {pyexpr(f)}" for i, f in enumerate(fields)))
        elif style[0] == "inherit":
            cuts = [0] + list(style[1:]) + [len(fields)]
            base = "std.Record"
            for j in range(len(cuts) - 1):
                cname = name if j == len(cuts) - 2 else f"{name}_b{j}"
                body = "\n".join(f"    f{i}: {pyexpr(fields[i])}" for i in range(cuts[j], cuts[j + 1])) or "    pass"
                out.append(f"class {cname}({base}):\n{body}")
                base = cname
        elif style[0] == "template":
            kk = style[1]

            def fexpr(f):
                if f[0] in ("bv", "uns", "sgn") and f[1] == kk:
                    return {"bv": "BitVector", "uns": "Unsigned", "sgn": "Signed"}[f[0]] + f"[{name}_W]"
                return pyexpr(f)

            out.append(f"class {name}_W(int):\n    pass")
            out.append(f"class {name}_T(std.Record[{name}_W]):\n" + "\n".join(f"    f{i}: {fexpr(f)}" for i, f in enumerate(fields)))
            out.append(f"{name} = {name}_T[{kk}]")
        elif style[0] == "tinherit":
            # a templated base DECLARATION and a record derived from it that adds fields; both specialised with the same argument
            kk, cut = style[1], max(1, min(style[2], len(fields)))

            def fexpr(f):
                if f[0] in ("bv", "uns", "sgn") and f[1] == kk:
                    return {"bv": "BitVector", "uns": "Unsigned", "sgn": "Signed"}[f[0]] + f"[{name}_W]"
                return pyexpr(f)

            out.append(f"class {name}_W(int):\n    pass")
            out.append(f"class {name}_b0_T(std.Record[{name}_W]):\n" + "\n".join(f"    f{i}: {fexpr(fields[i])}" for i in range(cut)))
            out.append(f"class {name}_T({name}_b0_T):\n" + ("\n".join(f"    f{i}: {fexpr(fields[i])}" for i in range(cut, len(fields))) or "    pass"))
            out.append(f"{name}_b0 = {name}_b0_T[{kk}]")
            out.append(f"{name} = {name}_T[{kk}]")


def type_module_source(ty):
    defs = []
    class_defs(ty, defs)
    return HEADER + "\n\n" + "\n\n".join(defs) + f"\n\nTOP = {pyexpr(ty)}\n"


# ---------------------------------------------------------------------------------------------------
# canonical values <-> cohdl objects (inside tasks only)
# ---------------------------------------------------------------------------------------------------


def parse_sexp(s):
    toks = s.replace("(", " ( ").replace(")", " ) ").split()
    pos = 0

    def p():
        nonlocal pos
        t = toks[pos]
        pos += 1
        if t == "(":
            out = []
            while toks[pos] != ")":
                out.append(p())
            pos += 1
            return out
        return t

    r = p()
    if pos != len(toks):
        raise ValueError(s)
    return r


def show_sexp(v):
    return v if isinstance(v, str) else "(" + " ".join(show_sexp(x) for x in v) + ")"


def bits_str(bv):
    """MSB-first string of a cohdl BitVector / Bit value, independent of the serialisation code"""
    from cohdl._core._type_qualifier import TypeQualifierBase

    bv = TypeQualifierBase.decay(bv)
    w = bv.width
    n = bv.unsigned.to_int()
    return format(n, f"0{w}b")


def pytype(ty, mod):
    return eval(pyexpr(ty), mod.__dict__)


def int_of(x):
    from cohdl._core._type_qualifier import TypeQualifierBase

    return TypeQualifierBase.decay(x).to_int()


def walk(ty, x, mod):
    """cohdl object -> canonical value (s-expression string).  Uses only accessors (attributes, indexing,
    to_int, bool) - never the serialisation code (except std.Array.get_elem, the only element accessor)."""
    from cohdl import std

    k = ty[0]
    if k == "bit":
        return f"(bit {1 if bool(x) else 0})"
    if k == "bool":
        return f"(bool {1 if bool(x) else 0})"
    if k == "bv":
        return f"(bv {bits_str(x)})"
    if k == "uns":
        return f"(uns {ty[1]} {int_of(x)})"
    if k == "sgn":
        return f"(sgn {ty[1]} {int_of(x)})"
    if k == "arr":
        assert len(x) == ty[2]
        return "(arr " + " ".join(walk(ty[1], x[i], mod) for i in range(ty[2])) + ")"
    if k == "sarr":
        assert len(x) == ty[2]
        return "(sarr " + " ".join(walk(ty[1], x.get_elem(i, std.Value), mod) for i in range(ty[2])) + ")"
    if k == "rec":
        names = list(type(x)._cohdlstd_record_annotations.keys())
        assert names == [f"f{i}" for i in range(len(ty[2]))], names
        return "(rec " + " ".join(walk(f, getattr(x, f"f{i}"), mod) for i, f in enumerate(ty[2])) + ")"
    if k == "enum":
        return f"(enum {walk(ty[2], x.raw, mod)})"
    if k == "sfix":
        return f"(sfix {ty[1]} {int_of(x._val)})"
    if k == "ufix":
        return f"(ufix {ty[1]} {int_of(x._val)})"
    if k == "ser":
        return f"(ser {bits_str(x.bits())})"
    raise ValueError(ty)


# ---- construction paths of a record value: every way a user can build the same value must serialise identically.
#   kw     keyword arguments in declaration order, _qualifier_=std.Ref (what Record._from_bits_ itself does)
#   pos    all positional
#   rev    keyword arguments in reversed declaration order
#   rot    keyword arguments rotated by one (a non-involutive permutation: differs from rev for >= 3 fields)
#   mixed  first field(s) positional, the rest by keyword in reversed order
#   copy   copy construction `T(x)` from a value x built with shuffled keywords
#   assign (compiled only) default-constructed Variable, single fields assigned afterwards in shuffled order
#   null / full (compiled only) `T(Null)` / `T(Full)`
# applied to EVERY record node of the value (nested records are built the same way)
PY_MODES = ["kw", "pos", "rev", "rot", "mixed", "copy"]
EXTRA_MODES = PY_MODES[1:]


def has_rec(ty):
    return any(k.startswith("rec-") for k in kinds_of(ty))


def has_kind(ty, kind):
    return kind in kinds_of(ty)


def rec_plan(n, mode):
    """-> (indices passed positionally, indices passed by keyword in that order, copy?)"""
    idx = list(range(n))
    if mode == "kw":
        return [], idx, False
    if mode == "pos":
        return idx, [], False
    if mode == "rev":
        return [], idx[::-1], False
    if mode == "rot":
        return [], idx[1:] + idx[:1], False
    if mode == "mixed":
        k = max(1, n // 2) if n > 1 else 0
        return idx[:k], idx[k:][::-1], False
    if mode == "copy":
        return [], idx[1:][::-1] + idx[:1], True
    raise ValueError(mode)


def rec_qualifier(ty, mode):
    """`kw` keeps std.Ref; the other paths use the default qualifier (std.Value) unless the record holds an std.Array
    (copying an std.Array of non-trivially serialisable elements by value is rejected by cohdl)"""
    return "std.Ref" if mode == "kw" or has_kind(ty, "sarr") else None


def build(ty, v, mod, mode="kw"):
    """canonical value (parsed s-expression) -> cohdl object, using the ordinary constructors only"""
    from cohdl import std, Bit, BitVector, Unsigned, Signed

    k = ty[0]
    assert v[0] == k, (ty, v)
    if k == "bit":
        return Bit(int(v[1]))
    if k == "bool":
        return bool(int(v[1]))
    if k == "bv":
        return BitVector[ty[1]](v[1])
    if k == "uns":
        return Unsigned[ty[1]](int(v[2]))
    if k == "sgn":
        return Signed[ty[1]](int(v[2]))
    if k == "arr":
        return pytype(ty, mod)([build(ty[1], e, mod, mode) for e in v[1:]])
    if k == "sarr":
        return pytype(ty, mod)([build(ty[1], e, mod, mode) for e in v[1:]], _qualifier_=std.Value)
    if k == "rec":
        T = pytype(ty, mod)
        parts = [build(f, e, mod, mode) for f, e in zip(ty[2], v[1:])]
        pos, kw, copy = rec_plan(len(parts), mode)
        q = rec_qualifier(ty, mode)
        extra = {"_qualifier_": std.Ref} if q else {}
        x = T(*[parts[i] for i in pos], **{f"f{i}": parts[i] for i in kw}, **extra)
        return T(x, **extra) if copy else x
    if k == "enum":
        return pytype(ty, mod)._unsafe_init_(build(ty[2], v[1], mod, mode))
    if k == "sfix":
        return pytype(ty, mod)(raw=Signed[ty[1]](int(v[2])))
    if k == "ufix":
        return pytype(ty, mod)(raw=Unsigned[ty[1]](int(v[2])))
    if k == "ser":
        raise ValueError("Serialized values are built from the inner value")
    raise ValueError(ty)


# ---------------------------------------------------------------------------------------------------
# the documented layout once more, in Python (third implementation: used to build enumerator literals,
# leaf port stimuli and as the oracle of the failing-input search; the Lean spec is compared against it too)
# ---------------------------------------------------------------------------------------------------


def spec_decode(ty, bits):
    """bits: MSB-first string of exactly width(ty) characters -> canonical value (s-expression string)"""
    k = ty[0]
    w = width(ty)
    assert len(bits) == w, (ty, bits)
    if k in ("bit", "bool"):
        return f"({k} {bits})"
    if k == "bv":
        return f"(bv {bits})"
    if k in ("uns", "ufix"):
        return f"({k} {w} {int(bits, 2)})"
    if k in ("sgn", "sfix"):
        n = int(bits, 2)
        return f"({k} {w} {n - (1 << w) if bits[0] == '1' else n})"
    if k in ("arr", "sarr"):
        ew = width(ty[1])
        return f"({k} " + " ".join(spec_decode(ty[1], bits[w - ew * (i + 1): w - ew * i]) for i in range(ty[2])) + ")"
    if k == "rec":
        out, lo = [], 0
        for f in ty[2]:
            fw = width(f)
            out.append(spec_decode(f, bits[w - lo - fw: w - lo]))
            lo += fw
        return "(rec " + " ".join(out) + ")"
    if k == "enum":
        return f"(enum {spec_decode(ty[2], bits)})"
    if k == "ser":
        return f"(ser {bits})"
    raise ValueError(ty)


def leaves(ty, path=()):
    """[(path, leaf type)] in layout order (lowest bits first); path elements: ('f', i) record field,
    ('a', j) cohdl.Array element, ('s', j) std.Array element, ('raw',) enum"""
    k = ty[0]
    if k in LEAF:
        return [(path, ty)]
    if k == "arr":
        return [l for j in range(ty[2]) for l in leaves(ty[1], path + (("a", j),))]
    if k == "sarr":
        return [l for j in range(ty[2]) for l in leaves(ty[1], path + (("s", j),))]
    if k == "rec":
        return [l for i, f in enumerate(ty[2]) for l in leaves(f, path + (("f", i),))]
    if k == "enum":
        return leaves(ty[2], path + (("raw",),))
    if k == "ser":
        return leaves(ty[1], path)
    raise ValueError(ty)


def access_expr(base, path, leaf):
    e = base
    for p in path:
        if p[0] == "f":
            e += f".f{p[1]}"
        elif p[0] == "a":
            e += f"[{p[1]}]"
        elif p[0] == "s":
            e += f".get_elem({p[1]}, std.Value)"
        elif p[0] == "raw":
            e += ".raw"
    if leaf[0] in ("sfix", "ufix"):
        e += "._val"
    return e


def leaf_port_type(leaf):
    k = leaf[0]
    if k in ("bit", "bool"):
        return "Bit"
    if k == "bv":
        return f"BitVector[{leaf[1]}]"
    if k in ("uns", "ufix"):
        return f"Unsigned[{leaf[1]}]"
    if k in ("sgn", "sfix"):
        return f"Signed[{leaf[1]}]"
    raise ValueError(leaf)


def cons_expr(ty, counter, mode="kw"):
    """constructor expression of a value of type ty whose leaves are the input ports self.k<n> (layout order),
    every record node built through the construction path `mode`"""
    k = ty[0]
    if k in LEAF:
        n = counter[0]
        counter[0] += 1
        p = f"self.k{n}"
        if k == "bool":
            return f"bool({p})"
        if k in ("sfix", "ufix"):
            return f"{pyexpr(ty)}(raw={p})"
        return p
    if k == "arr":
        return f"std.Value[{pyexpr(ty)}]([" + ", ".join(cons_expr(ty[1], counter, mode) for _ in range(ty[2])) + "])"
    if k == "sarr":
        return f"{pyexpr(ty)}([" + ", ".join(cons_expr(ty[1], counter, mode) for _ in range(ty[2])) + "], _qualifier_=std.Value)"
    if k == "rec":
        parts = [cons_expr(f, counter, mode) for f in ty[2]]       # leaves are numbered in declaration order
        pos, kw, copy = rec_plan(len(parts), mode)
        q = rec_qualifier(ty, mode)
        args = [parts[i] for i in pos] + [f"f{i}={parts[i]}" for i in kw] + ([f"_qualifier_={q}"] if q else [])
        e = f"{ty[1]}(" + ", ".join(args) + ")"
        return f"{ty[1]}({e}" + (f", _qualifier_={q}" if q else "") + ")" if copy else e
    if k == "enum":
        return f"{ty[1]}._unsafe_init_({cons_expr(ty[2], counter, mode)})"
    raise ValueError(ty)


def assignable(ty):
    """`assign` / `null` / `full` paths: a record whose leaves are all reached through record fields only"""
    return ty[0] == "rec" and all(all(p[0] == "f" for p in path) for path, leaf in leaves(ty))


def sim_modes(ty):
    """construction paths exercised in the compiled wrapper of ty (besides the basic `ser` = kw)"""
    return rec_sim_modes(ty) + SNAP_MODES + (["snapser", "snapserv"] if ty[0] == "ser" else [])


# snapshot semantics of the emitted logic (`to_bits(x)` is the VALUE of x at the call, `from_bits` results do not alias their
# argument): x is held in a Variable, serialised, then REASSIGNED from port b, then the bits are used
#   snap     bits = to_bits(x); x := from_bits(b); out <= bits                  -> a
#   snaprt   y = from_bits[T](bits) (before the reassignment); out <= to_bits(y)  -> a
#   fb       z = from_bits[T](bv); bv := b; out <= to_bits(z)                    -> a
#   snapser / snapserv   s = Serialized[T](x); x := ..; out <= s.bits() / to_bits(s.value())   -> a
SNAP_MODES = ["snap", "snaprt", "fb"]
SNAP_ALL = SNAP_MODES + ["snapser", "snapserv"]


def rec_sim_modes(ty):
    inner = ty[1] if ty[0] == "ser" else ty
    if not has_rec(inner):
        return []
    can_assign = ty[0] != "ser" and assignable(inner)
    if SIM_ALL_MODES or ty_short(ty) in _fixed_shorts() or len(leaves(inner)) <= 3:
        return EXTRA_MODES + (["assign", "null", "full"] if can_assign else [])
    # larger random compositions: two paths chosen by a stable hash of the shape (compile time is the budget), always `assign`
    h = int(__import__("hashlib").sha256(ty_short(ty).encode()).hexdigest(), 16)
    a = EXTRA_MODES[h % len(EXTRA_MODES)]
    b = [m for m in EXTRA_MODES if m != a][(h // 7) % (len(EXTRA_MODES) - 1)]
    return [a, b] + (["assign"] if can_assign else [])


SIM_ALL_MODES = False      # thorough tier / replay / shrinking: every path in every compiled design
_FIXED_SHORTS = []


def _fixed_shorts():
    if not _FIXED_SHORTS:
        _FIXED_SHORTS.append({ty_short(t) for t in fixed_types()})
    return _FIXED_SHORTS[0]


def entity_source(ty, modes=None):
    """round-trip wrapper: inp -> from_bits[T] -> leaves l<n> and to_bits -> rt; leaf inputs k<n> -> constructors -> to_bits -> ser.
    For Serialized[T]: from_raw(inp).value() / Serialized[T](constructed).bits().
    ser_<mode>: to_bits of the same value built through the other construction paths (sim_modes)."""
    inner = ty[1] if ty[0] == "ser" else ty
    W = width(ty)
    lv = leaves(inner)
    ports = [f"    inp = Port.input(BitVector[{W}])", f"    rt = Port.output(BitVector[{W}])", f"    ser = Port.output(BitVector[{W}])"]
    body = []
    if ty[0] == "ser":
        body.append("            s = std.Serialized[TOP].from_raw(self.inp)")
        body.append("            v = s.value()")
    else:
        body.append("            v = std.from_bits[TOP](self.inp)")
    body.append("            self.rt <<= std.to_bits(v)")
    for n, (path, leaf) in enumerate(lv):
        ports.append(f"    l{n} = Port.output({leaf_port_type(leaf)})")
        ports.append(f"    k{n} = Port.input({leaf_port_type(leaf)})")
        body.append(f"            self.l{n} <<= {access_expr('v', path, leaf)}")
    c = cons_expr(inner, [0])
    body.append(f"            w = {c}")
    if ty[0] == "ser":
        body.append("            self.ser <<= std.Serialized[TOP](w).bits()")
    else:
        body.append("            self.ser <<= std.to_bits(w)")
    procs = []
    for m in (sim_modes(ty) if modes is None else modes):
        ports.append(f"    ser_{m} = Port.output(BitVector[{W}])")
        if m == "snap":
            ports.append(f"    b = Port.input(BitVector[{W}])")
            lines = ["        @std.sequential", "        def p_snap():",
                     "            x = std.from_bits[TOP](self.inp, std.Variable)",
                     "            bits = std.to_bits(x)",
                     "            y = std.from_bits[TOP](bits)"]
            if ty[0] == "ser":
                lines.append("            s = std.Serialized[TOP](x)")
            lines += ["            x @= std.from_bits[TOP](self.b)",
                      "            self.ser_snap <<= bits",
                      "            self.ser_snaprt <<= std.to_bits(y)",
                      f"            bv = std.Variable[BitVector[{W}]](self.inp)",
                      "            z = std.from_bits[TOP](bv)",
                      "            bv @= self.b",
                      "            self.ser_fb <<= std.to_bits(z)"]
            if ty[0] == "ser":
                lines += ["            self.ser_snapser <<= s.bits()", "            self.ser_snapserv <<= std.to_bits(s.value())"]
            procs.append("\n".join(lines))
        elif m in ("snaprt", "fb", "snapser", "snapserv"):
            pass
        elif m in EXTRA_MODES:
            body.append(f"            w_{m} = {cons_expr(inner, [0], m)}")
            if ty[0] == "ser":
                body.append(f"            self.ser_{m} <<= std.Serialized[TOP](w_{m}).bits()")
            else:
                body.append(f"            self.ser_{m} <<= std.to_bits(w_{m})")
        elif m in ("null", "full"):
            body.append(f"            self.ser_{m} <<= std.to_bits(TOP({m.capitalize()}))")
        else:  # assign: default-constructed variable, fields assigned one by one in shuffled (reversed) order
            lines = ["        @std.sequential", "        def p_assign():", "            va = std.Variable[TOP]()"]
            for n, (path, leaf) in reversed(list(enumerate(lv))):
                src = f"self.k{n}"
                if leaf[0] == "bool":
                    src = f"bool({src})"
                elif leaf[0] in ("sfix", "ufix"):
                    src = f"{pyexpr(leaf)}(raw={src})"
                lines.append(f"            va{''.join(f'.f{p[1]}' for p in path)} @= {src}")
            lines.append("            self.ser_assign <<= std.to_bits(va)")
            procs.append("\n".join(lines))
    nl = "\n"
    return (type_module_source(inner) + "\n\nclass C17Wrap(cohdl.Entity):\n" + nl.join(ports) +
            "\n\n    def architecture(self):\n        @std.concurrent\n        def logic():\n" + nl.join(body) + "\n" +
            "".join("\n" + p + "\n" for p in procs))


def leaf_value(leaf, vs):
    """canonical leaf value (parsed) -> integer for Design.set / as returned by Design.get"""
    k = leaf[0]
    if k in ("bit", "bool"):
        return int(vs[1])
    if k == "bv":
        return int(vs[1], 2)
    return int(vs[2])


def flat_leaves(ty, v):
    """leaf values (parsed canonical) of a canonical value in layout order"""
    k = ty[0]
    if k in LEAF:
        return [v]
    if k in ("arr", "sarr"):
        return [x for e in v[1:] for x in flat_leaves(ty[1], e)]
    if k == "rec":
        return [x for f, e in zip(ty[2], v[1:]) for x in flat_leaves(f, e)]
    if k == "enum":
        return flat_leaves(ty[2], v[1])
    if k == "ser":
        raise ValueError
    raise ValueError(ty)


class Design17(Design):
    """local work-around (see notes/C17.md SHARED-CHANGE-REQUEST): `sl & sl` is legal VHDL when the context fixes the
    result type (`b <= (x) & (x);` with b : std_logic_vector, printed for std.as_bitvector(Bit)); the shared interpreter
    rejects it as ambiguous.  Here it yields an untyped vector that is coerced to the target type like a string literal."""

    def _concat(self, a, b):
        from .vhdl_sim import SL, Vec

        if isinstance(a, SL) and isinstance(b, SL):
            return Vec(None, a.v + b.v)
        return super()._concat(a, b)


def sim_task(item):
    """item = (vhdl, type, [patterns], [model value of the inner type per pattern]) -> per pattern 'rt ser l0 l1 ...';
    the leaf inputs k<n> are driven with the leaves of the model value of the same pattern, so `ser` must equal the
    pattern when the emitted to_bits implements the documented layout"""
    vhdl, ty, patterns, inner_vals = item
    inner = ty[1] if ty[0] == "ser" else ty
    lv = leaves(inner)
    d = Design17(vhdl)
    d.set("inp", 0)
    d.set("b", 0)
    for n in range(len(lv)):
        d.set(f"k{n}", 0)
    d.initialise()
    out = []
    for b, iv in zip(patterns, inner_vals):
        vals = flat_leaves(inner, parse_sexp(iv))
        d.set("inp", int(b, 2))
        d.set("b", int(b, 2) ^ ((1 << len(b)) - 1))      # the value the snapshot source is reassigned to: every bit differs
        for n, ((path, leaf), v) in enumerate(zip(lv, vals)):
            d.set(f"k{n}", leaf_value(leaf, v))
        d.settle()
        W = len(b)
        fmt = lambda x: "-" if x is None else format(x, f"0{W}b")
        ls = ["-" if (x := d.get(f"l{n}")) is None else str(int(x)) for n in range(len(lv))]
        ms = [f"{m}={fmt(d.get('ser_' + m))}" for m in sim_modes(ty)]
        out.append(f"{fmt(d.get('rt'))} {fmt(d.get('ser'))} " + " ".join(ls + ms))
    return out


# ---------------------------------------------------------------------------------------------------
# type-composition generator
# ---------------------------------------------------------------------------------------------------


class Gen:
    def __init__(self, rng):
        self.rng = rng
        self.n = 0

    def name(self, prefix):
        self.n += 1
        return f"{prefix}{self.n}"

    def leaf(self, maxw, array_elem=False):
        rng = self.rng
        kinds = ["bit", "bv", "uns", "sgn"] if array_elem else ["bit", "bool", "bv", "uns", "sgn", "sfix", "ufix"]
        k = rng.choice(kinds)
        if k in ("bit", "bool"):
            return [k]
        hi = max(1, min(maxw, 5))
        w = rng.randint(1, hi) if rng.random() < 0.5 else rng.randint((hi + 1) // 2, hi)   # biased to use the budget
        if k in ("sfix", "ufix"):
            return [k, w, rng.randint(-3, 2)]
        return [k, w]

    def ty(self, depth, maxw, ctx="any"):
        """ctx: 'any' | 'arr' (element of a cohdl.Array: Bit / vectors / cohdl arrays only)"""
        rng = self.rng
        if depth == 0 or maxw <= 1 or rng.random() < 0.12:
            return self.leaf(maxw, array_elem=(ctx == "arr"))
        if ctx == "arr":
            choice = rng.choice(["leaf", "arr", "arr"])
        else:
            choice = rng.choice(["arr", "sarr", "sarr", "rec", "rec", "rec", "rec", "enum"])
        if choice == "leaf":
            return self.leaf(maxw, array_elem=True)
        if choice in ("arr", "sarr"):
            n = rng.randint(1, min(3, maxw))
            e = self.ty(depth - 1, maxw // n, "arr" if choice == "arr" else "any")
            return [choice, e, n]
        if choice == "enum":
            return self.enum(depth, maxw)
        return self.rec(depth, maxw)

    def rec(self, depth, maxw):
        rng = self.rng
        k = rng.randint(1, min(4, maxw))
        # split the width budget unevenly: uneven field widths are what makes offset errors visible
        cuts = sorted(rng.sample(range(1, maxw), k - 1)) if k > 1 else []
        budgets = [b - a for a, b in zip([0] + cuts, cuts + [maxw])]
        fields = []
        deep = rng.randrange(k)
        for i, b in enumerate(budgets):
            fields.append(self.ty(depth - 1 if (i == deep or rng.random() < 0.3) else 0, b))
        style = rng.choice(["flat", "flat", "inherit", "inherit", "inherit", "template", "tinherit"])
        if style == "inherit":
            ncuts = rng.randint(1, 2)
            # split points may coincide with 0 < c <= k (an empty derived class) but the first base needs a field
            st = ["inherit"] + sorted(rng.randint(1, k) for _ in range(ncuts))
        elif style == "template":
            ws = [f[1] for f in fields if f[0] in ("bv", "uns", "sgn")]
            st = ["template", rng.choice(ws) if ws else 1]
        elif style == "tinherit":
            ws = [f[1] for f in fields if f[0] in ("bv", "uns", "sgn")]
            st = ["tinherit", rng.choice(ws) if ws else 1, rng.randint(1, k)]
        else:
            st = ["flat"]
        return ["rec", self.name("R"), fields, st]

    def enum(self, depth, maxw):
        rng = self.rng
        c = rng.random()
        if c < 0.75 or depth < 2 or maxw < 2:
            u = [rng.choice(["bv", "uns", "sgn"]), rng.randint(1, max(1, min(maxw, 4)))]
        else:
            u = self.rec(1, min(maxw, 5))
        w = width(u)
        flag = rng.random() < 0.4
        if flag:
            members = sorted({1 << rng.randrange(w) for _ in range(rng.randint(1, 3))})
        else:
            # not dense on purpose: most bit patterns are no member
            members = sorted({rng.randrange(1 << w) for _ in range(rng.randint(1, 3))})
        return ["enum", self.name("E"), u, members, flag]

    def top(self, depth, maxw):
        t = self.ty(depth, maxw)
        # Serialized[bool](runtime value) is rejected by cohdl (`base_type(raw) is elem_type` compares Boolean with bool):
        # an over-rejection outside the property (no value, no layout), see notes/C17.md
        if self.rng.random() < 0.1 and t != ["bool"]:
            t = ["ser", t]
        return t


def fixed_types():
    """compositions that are always checked (each kind, the upstream test shapes, uneven widths, deep nesting)"""
    R = lambda name, fs, st=("flat",): ["rec", name, fs, list(st)]
    out = [
        ["bit"], ["bool"], ["bv", 3], ["uns", 4], ["sgn", 4], ["sgn", 1], ["sfix", 4, -2], ["ufix", 3, 1],
        ["arr", ["bit"], 4], ["arr", ["uns", 2], 3], ["arr", ["arr", ["bv", 2], 2], 2], ["arr", ["arr", ["arr", ["bit"], 2], 2], 2],
        ["sarr", ["bit"], 3], ["sarr", ["sgn", 3], 2], ["sarr", ["sarr", ["uns", 2], 2], 2], ["sarr", ["arr", ["bv", 2], 2], 2],
        ["sarr", ["bool"], 3],
        R("A1", [["bit"], ["uns", 2], ["sgn", 3]]),
        R("A2", [["bit"], ["bit"], ["sgn", 5]], ("inherit", 1, 2)),
        R("A3", [["bit"], ["bv", 4]], ("inherit", 1, 2)),          # empty most-derived class
        R("A4", [["bit"], ["bv", 3], ["uns", 3], ["sgn", 3]], ("template", 3)),
        R("A5", [["bool"], ["sarr", ["bit"], 3], ["arr", ["bv", 2], 2]]),
        R("A6", [R("A6a", [["uns", 1], ["bv", 2]]), ["bit"], R("A6b", [["sgn", 2], ["bit"]], ("inherit", 1))]),
        ["sarr", R("A7", [["bit"], ["uns", 2]]), 3],               # array of records with uneven field widths
        ["sarr", R("A8", [["uns", 2], ["sarr", R("A8a", [["bit"], ["sgn", 2]]), 2]]), 2],
        ["enum", "E1", ["uns", 3], [1, 5], False], ["enum", "E2", ["bv", 4], [0, 9, 15], False],
        ["enum", "E3", ["uns", 4], [1, 2, 8], True], ["enum", "E4", ["sgn", 3], [7, 2], False],
        ["enum", "E5", R("A9", [["bit"], ["uns", 2]]), [0, 5], False],
        R("A10", [["enum", "E6", ["uns", 2], [2], False], ["bit"], ["enum", "E7", ["bv", 3], [1, 4], True]]),
        ["sarr", ["enum", "E8", ["uns", 2], [1, 3], False], 3],
        R("A11", [["sfix", 3, -1], ["ufix", 2, 0], ["bit"]]),
        ["ser", R("A12", [["bit"], ["uns", 3]])], ["ser", ["sarr", ["uns", 2], 2]], ["ser", ["uns", 3]],
        ["ser", ["sfix", 3, -1]], ["ser", ["ufix", 2, 1]],
    ]
    return out


# ---------------------------------------------------------------------------------------------------
# (a) Python level
# ---------------------------------------------------------------------------------------------------


def classify(e):
    return type(e).__name__


def py_task(item):
    """item = (type descriptor, [patterns as MSB-first strings], [canonical values to build with constructors])
    -> dict(count=..., from=[canonical | !Err], rt=[bits | !Err], built=[bits | !Err])"""
    ty, patterns, values = item
    import_cohdl()
    from cohdl import std, BitVector

    inner = ty[1] if ty[0] == "ser" else ty
    mod = load_design_module(type_module_source(inner), tag="c17")
    T = mod.TOP
    out = {"count": None, "count_inst": [], "from": [], "rt": [], "built": [], "wbuilt": [], "eq": []}
    try:
        out["count"] = int(std.count_bits(T))   # plain int: a templated width is an instance of the template-argument class
    except BaseException as e:  # noqa
        out["count"] = "!" + classify(e)
    W = width(ty)
    for b in patterns:
        try:
            bv = BitVector[W](b)
            if ty[0] == "ser":
                x = std.Serialized[T].from_raw(bv)
                out["from"].append(f"(ser {bits_str(x.bits())})")
                v = x.value()
                out["rt"].append(bits_str(std.to_bits(v)) + " " + walk(inner, v, mod))
            else:
                x = std.from_bits[T](bv)
                out["from"].append(walk(ty, x, mod))
                tb = std.to_bits(x)
                out["rt"].append(bits_str(tb))
                out["count_inst"].append(int(std.count_bits(x)) if not isinstance(x, bool) else 1)
        except BaseException as e:  # noqa
            out["from"].append("!" + classify(e))
            out["rt"].append("!" + classify(e))
    for v in values:
        try:
            x = build(inner, parse_sexp(v), mod)
            if ty[0] == "ser":
                s = std.Serialized[T](x)
                out["built"].append(bits_str(s.bits()))
                out["wbuilt"].append(walk(inner, s.value(), mod))
            else:
                tb = std.to_bits(x)
                out["built"].append(bits_str(tb))
                out["wbuilt"].append(walk(ty, std.from_bits[T](tb), mod))
        except BaseException as e:  # noqa
            out["built"].append("!" + classify(e))
            out["wbuilt"].append("!" + classify(e))
    # the same values through every other construction path of records (positional, shuffled keywords, mixed, copy):
    # to_bits must not depend on how the value was built
    out["modes"] = {}
    if has_rec(inner):
        sel = mode_subset(patterns)
        for m in EXTRA_MODES:
            row = []
            for i in sel:
                try:
                    x = build(inner, parse_sexp(values[i]), mod, m)
                    if ty[0] == "ser":
                        row.append(bits_str(std.Serialized[T](x).bits()))
                    else:
                        tb = std.to_bits(x)
                        row.append(bits_str(tb) + " " + walk(ty, std.from_bits[T](tb), mod))
                except BaseException as e:  # noqa
                    row.append("!" + classify(e))
            out["modes"][m] = row
    return out


def mode_subset(patterns):
    """indices of the patterns used for the extra construction paths: all when few, else every pattern with at most one
    set / cleared bit (what a field permutation moves) plus a stride sample"""
    n = len(patterns)
    if n <= 64:
        return list(range(n))
    W = len(patterns[0])
    keep = {i for i, p in enumerate(patterns) if p.count("1") <= 1 or p.count("0") <= 1}
    keep |= set(range(0, n, max(1, n // 40)))
    return sorted(keep)


# ---------------------------------------------------------------------------------------------------
# patterns
# ---------------------------------------------------------------------------------------------------


def patterns_for(W, bound, rng, n_random):
    """all patterns up to the width bound; above it: zeros, ones, walking one / zero (every single bit position -
    what a layout error moves), and random ones"""
    if W <= bound:
        return [format(i, f"0{W}b") for i in range(1 << W)], True
    out = [0, (1 << W) - 1]
    out += [1 << i for i in range(W)] + [((1 << W) - 1) ^ (1 << i) for i in range(W)]
    out += [rng.getrandbits(W) for _ in range(n_random)]
    seen, res = set(), []
    for x in out:
        if x not in seen:
            seen.add(x)
            res.append(format(x, f"0{W}b"))
    return res, False


# ---------------------------------------------------------------------------------------------------
# evaluation of a list of types: model answers, Python level, compiled
# ---------------------------------------------------------------------------------------------------


def model_values(types, pats):
    """Lean: count, fromBits of every pattern (mirror and spec), and toBits of those values"""
    reqs = []
    for t, ps in zip(types, pats):
        s = ty_sexp(t)
        reqs.append(f"count {s}")
        reqs += [f"frombits {s} {p}" for p in ps]
        reqs += [f"spec-frombits {s} {p}" for p in ps]
    ans = lean_io.query("C17", reqs)
    out, i = [], 0
    for t, ps in zip(types, pats):
        cnt = ans[i]
        vals = ans[i + 1: i + 1 + len(ps)]
        svals = ans[i + 1 + len(ps): i + 1 + 2 * len(ps)]
        i += 1 + 2 * len(ps)
        if vals != svals:
            raise InfraError(f"Lean mirror and Lean spec disagree on {s}")  # contradicts C17.mirror_eq_spec
        for p, v in zip(ps, vals):
            if v != spec_decode(t, p):
                raise InfraError(f"Lean spec and the harness' Python spec disagree on {ty_sexp(t)} {p}: {v} / {spec_decode(t, p)}")
        out.append((cnt, vals))
    # toBits of the model values (must give back the pattern: C17.to_from) - also exercises the value parser
    reqs = [f"tobits {ty_sexp(t)} {v}" for t, ps, (c, vals) in zip(types, pats, out) for v in vals]
    ans = lean_io.query("C17", reqs)
    i = 0
    for t, ps, (c, vals) in zip(types, pats, out):
        if ans[i: i + len(ps)] != list(ps):
            raise InfraError(f"Lean toBits(fromBits b) != b on {ty_sexp(t)}: contradicts C17.to_from")
        i += len(ps)
    # Serialized[T]: the values of the inner type T (what `.value()` must give)
    reqs = [f"frombits {ty_sexp(t[1])} {p}" for t, ps in zip(types, pats) if t[0] == "ser" for p in ps]
    ans = lean_io.query("C17", reqs)
    i, res = 0, []
    for t, ps, (c, vals) in zip(types, pats, out):
        if t[0] == "ser":
            res.append((c, vals, ans[i: i + len(ps)]))
            i += len(ps)
        else:
            res.append((c, vals, vals))
    return res


def eval_py(types, pats, model):
    """-> per type list of mismatches (what, pattern, expected, observed)"""
    items = []
    for t, ps, (cnt, vals, cv) in zip(types, pats, model):
        items.append((t, ps, cv))
    res = fork_map(py_task, items)
    out = []
    for (t, ps, cv), (cnt, vals, _), r in zip(items, model, res):
        mm = []
        if r[0] != "ok":
            mm.append(("task", "-", "runs", r[1]))
            out.append(mm)
            continue
        r = r[1]
        if str(r["count"]) != cnt:
            mm.append(("count_bits", "-", cnt, str(r["count"])))
        for i, p in enumerate(ps):
            if t[0] == "ser":
                if r["from"][i] != vals[i]:
                    mm.append(("Serialized.from_raw.bits", p, vals[i], r["from"][i]))
                if r["rt"][i] != p + " " + cv[i]:
                    mm.append(("Serialized.value", p, p + " " + cv[i], r["rt"][i]))
            else:
                if r["from"][i] != vals[i]:
                    mm.append(("from_bits", p, vals[i], r["from"][i]))
                if r["rt"][i] != p:
                    mm.append(("to_bits(from_bits(b))", p, p, r["rt"][i]))
                if i < len(r["count_inst"]) and str(r["count_inst"][i]) != cnt:
                    mm.append(("count_bits(instance)", p, cnt, str(r["count_inst"][i])))
            if r["built"][i] != p:
                mm.append(("to_bits(constructed value)", cv[i], p, r["built"][i]))
            if r["wbuilt"][i] != cv[i]:
                mm.append(("from_bits(to_bits(x))", cv[i], cv[i], r["wbuilt"][i]))
        if r.get("modes"):
            sel = mode_subset(ps)
            for m, row in r["modes"].items():
                for i, got in zip(sel, row):
                    exp = ps[i] if t[0] == "ser" else ps[i] + " " + cv[i]
                    if got != exp:
                        mm.append((f"to_bits(value constructed [{m}])", cv[i], exp, got))
        out.append(mm)
    return out


def expected_sim_line(t, p, v):
    inner = t[1] if t[0] == "ser" else t
    vals = flat_leaves(inner, parse_sexp(v))
    W = len(p)
    ms = [f"{m}=" + ("0" * W if m == "null" else "1" * W if m == "full" else p) for m in sim_modes(t)]
    return f"{p} {p} " + " ".join([str(leaf_value(l, x)) for (pa, l), x in zip(leaves(inner), vals)] + ms)


def eval_sim(types, pats, model):
    srcs = [(entity_source(t), "C17Wrap") for t in types]
    comp = compile_many(srcs)
    tasks, idx = [], []
    out = [[] for _ in types]
    for i, (t, ps, c) in enumerate(zip(types, pats, comp)):
        if not c["ok"]:
            out[i].append(("compile", "-", "accepted", f"{c['errtype']}"))
            continue
        tasks.append((c["vhdl"], t, ps, model[i][2]))
        idx.append(i)
    res = fork_map(sim_task, tasks, fresh=False, chunk=2)
    for i, r in zip(idx, res):
        t, ps, (cnt, _, vals) = types[i], pats[i], model[i]
        if r[0] != "ok":
            out[i].append(("simulate", "-", "executable VHDL", r[1][:200]))
            continue
        for p, v, line in zip(ps, vals, r[1]):
            exp = expected_sim_line(t, p, v)
            if exp != line:
                e, o = exp.split(" "), line.split(" ")
                k = [a == b for a, b in zip(e, o)].index(False) if len(e) == len(o) else 0
                what = "emitted to_bits(from_bits(inp))" if k == 0 else ("emitted to_bits(constructed)" if k == 1 else
                       (f"emitted snapshot [{e[k].split('=')[0]}] after the source was reassigned to the complement" if e[k].split("=")[0] in SNAP_ALL else
                        f"emitted to_bits(constructed [{e[k].split('=')[0]}])") if "=" in e[k] else f"emitted from_bits leaf {k - 2}")
                out[i].append((what, p, exp, line))
    return out, srcs


# ---------------------------------------------------------------------------------------------------
# snapshot across coroutine states: `snap = to_bits(sig)` in one state, used in a later state while sig keeps changing.
# cohdl may reject the design ("Temporary objects may not be shared between states") - no claim then; when it accepts it,
# the bits used later must be the value at the point of the call
# ---------------------------------------------------------------------------------------------------


def co_source(ty):
    inner = ty[1] if ty[0] == "ser" else ty
    W = width(ty)
    take = "std.Serialized[TOP](sample).bits()" if ty[0] == "ser" else "std.to_bits(sample)"
    return type_module_source(inner) + f"""

class C17Co(cohdl.Entity):
    clk = Port.input(Bit)
    a = Port.input(BitVector[{W}])
    start = Port.input(Bit)
    ready = Port.input(Bit)
    outp = Port.output(BitVector[{W}])

    def architecture(self):
        sample = std.from_bits[TOP](BitVector[{W}](Null), std.Signal)

        @std.sequential(std.Clock(self.clk))
        def track():
            nonlocal sample
            sample <<= std.from_bits[TOP](self.a)

        @std.sequential(std.Clock(self.clk))
        async def proc():
            await self.start
            snap = {take}
            await self.ready
            self.outp <<= snap
"""


def co_sim_task(item):
    vhdl, W, pairs = item
    out = []
    for A, B in pairs:
        d = Design17(vhdl)
        for n in ("clk", "a", "start", "ready"):
            d.set(n, 0)
        d.initialise()
        d.set("a", A)
        d.settle(); d.clock("clk"); d.clock("clk")          # sample = A
        d.set("start", 1)
        d.settle(); d.clock("clk")                           # the state that takes the snapshot
        d.set("start", 0)
        d.set("a", B)
        d.settle(); d.clock("clk"); d.clock("clk"); d.clock("clk")   # sample = B
        d.set("ready", 1)
        d.settle(); d.clock("clk"); d.clock("clk")
        x = d.get("outp")
        out.append("-" if x is None else format(x, f"0{W}b"))
    return out


def check_coroutine_snapshots(types):
    """-> (mismatch list per type, number accepted)"""
    comp = compile_many([(co_source(t), "C17Co") for t in types])
    tasks, idx = [], []
    for i, (t, c) in enumerate(zip(types, comp)):
        if c["ok"]:
            W = width(t)
            full = (1 << W) - 1
            pairs = [(0, full), (full, 0)] + ([(1, full ^ 1), (1 << (W - 1), 1)] if W > 1 else [])
            tasks.append((c["vhdl"], W, pairs))
            idx.append((i, pairs))
    res = fork_map(co_sim_task, tasks, fresh=False, chunk=2)
    out = [[] for _ in types]
    for (i, pairs), r in zip(idx, res):
        W = width(types[i])
        if r[0] != "ok":
            out[i].append(("coroutine snapshot: simulate", "-", "executable VHDL", r[1][:200]))
            continue
        for (A, B), got in zip(pairs, r[1]):
            exp = format(A, f"0{W}b")
            if got != exp:
                out[i].append(("coroutine snapshot: bits taken in one state, used in a later state after the source signal changed",
                               f"{exp} then {format(B, f'0{W}b')}", exp, got))
    return out, len(tasks)


def co_types():
    """one small composition per kind"""
    R = lambda name, fs: ["rec", name, fs, ["flat"]]
    base = [["bit"], ["bool"], ["bv", 3], ["uns", 3], ["sgn", 3], ["sfix", 3, -1], ["ufix", 3, 0], ["arr", ["bv", 2], 2], ["sarr", ["uns", 2], 2],
            R("C1", [["bit"], ["uns", 2]]), R("C2", [["sfix", 2, -1], ["bit"]]), ["enum", "CE1", ["uns", 3], [1, 5], False],
            ["sarr", ["sfix", 2, 0], 2]]
    return base + [["ser", ["sfix", 3, -1]], ["ser", ["uns", 3]], ["ser", R("C3", [["bit"], ["uns", 2]])]]


# ---------------------------------------------------------------------------------------------------
# record class hierarchies x orders of first use (the per-class caches `_cohdlstd_bitcount` / `_cohdlstd_slice_map`):
# every class of a hierarchy (base .. derived), a record nesting the derived record and an array of it live in ONE module and
# are used in ONE interpreter in different orders (base first / derived first, count_bits / to_bits / from_bits first);
# after every single operation the result must be the documented one for THAT class
# ---------------------------------------------------------------------------------------------------

FAM_OPS = ["count", "to_bits", "from_bits", "count_inst"]


def hierarchy_levels(t):
    """the descriptors of every class of the chain a record is declared through (base first, t itself last)"""
    name, fs, st = t[1], t[2], t[3]
    if st[0] == "inherit":
        return [["rec", f"{name}_b{j}", fs[:c], ["flat"]] for j, c in enumerate(st[1:])] + [t]
    if st[0] == "tinherit":
        return [["rec", f"{name}_b0", fs[:max(1, min(st[2], len(fs)))], ["flat"]], t]
    return [t]


def family_members(t):
    """[descriptor]: the chain, a record nesting the most derived record between two other fields, an array of it"""
    lv = hierarchy_levels(t)
    wrap = ["rec", f"{t[1]}_w", [["bit"], t, ["uns", 2]], ["flat"]]
    return lv + [wrap, ["sarr", t, 2]], wrap


def family_source(t):
    members, wrap = family_members(t)
    defs, seen = [], set()
    tmp = []
    class_defs(wrap, tmp)
    for d in tmp:
        if d not in seen:
            seen.add(d)
            defs.append(d)
    return HEADER + "\n\n" + "\n\n".join(defs) + "\n"


def fam_pattern(W, which):
    a = ("10" * W)[:W]
    return a if which == 0 else "".join("1" if c == "0" else "0" for c in a)


def family_scenarios(n_members, rng, n_random):
    """[(tag, [(member, op)])]: interleaved (one first operation per member in the given order, then everything else) and
    member-complete (all operations of one member, then the next) shapes; orders: base first, derived first, random"""
    base_first = list(range(n_members))
    orders = [("basefirst", base_first), ("derivedfirst", base_first[::-1])]
    for r in range(n_random):
        o = base_first[:]
        rng.shuffle(o)
        orders.append((f"rand{r}", o))
    out = []
    for oname, order in orders:
        for first in FAM_OPS:
            ops = [first] + [o for o in FAM_OPS if o != first]
            out.append((f"interleaved:{oname}:{first}", [(m, first) for m in order] + [(m, o) for o in ops[1:] for m in order]))
            out.append((f"complete:{oname}:{first}", [(m, o) for m in order for o in ops]))
    return out


def fam_task(item):
    """item = (type, [(member, op)]) -> one result string per operation"""
    t, steps = item
    import_cohdl()
    from cohdl import std, BitVector

    members, _ = family_members(t)
    mod = load_design_module(family_source(t), tag="c17fam")
    out = []
    for n, (m, op) in enumerate(steps):
        mt = members[m]
        W = width(mt)
        try:
            T = pytype(mt, mod)
            if op == "count":
                r = str(int(std.count_bits(T)))
            elif op == "to_bits":
                p = fam_pattern(W, 0)
                r = bits_str(std.to_bits(build(mt, parse_sexp(spec_decode(mt, p)), mod))) + " " + str(int(std.count_bits(T)))
            elif op == "from_bits":
                x = std.from_bits[T](BitVector[W](fam_pattern(W, 1)))
                r = walk(mt, x, mod) + " " + bits_str(std.to_bits(x))
            else:
                r = str(int(std.count_bits(build(mt, parse_sexp(spec_decode(mt, fam_pattern(W, 1))), mod))))
        except BaseException as e:  # noqa
            r = "!" + classify(e)
        out.append(r)
    return out


def check_families(fams, rng, n_random):
    """-> per family [(tag, steps, index of the first failing step, expected, observed)]"""
    reqs = []
    for t in fams:
        for mt in family_members(t)[0]:
            reqs += [f"count {ty_sexp(mt)}", f"frombits {ty_sexp(mt)} {fam_pattern(width(mt), 1)}", f"tobits {ty_sexp(mt)} {spec_decode(mt, fam_pattern(width(mt), 0))}"]
    ans = lean_io.query("C17", reqs)
    items, meta, k = [], [], 0
    for fi, t in enumerate(fams):
        members = family_members(t)[0]
        exp = {}
        for m, mt in enumerate(members):
            cnt, val, tb = ans[k], ans[k + 1], ans[k + 2]
            k += 3
            W = width(mt)
            if tb != fam_pattern(W, 0) or cnt != str(W):
                raise InfraError(f"Lean model and Python spec disagree on {ty_sexp(mt)}")
            exp[(m, "count")] = cnt
            exp[(m, "to_bits")] = tb + " " + cnt
            exp[(m, "from_bits")] = val + " " + fam_pattern(W, 1)
            exp[(m, "count_inst")] = cnt
        for tag, steps in family_scenarios(len(members), rng, n_random):
            items.append((t, steps))
            meta.append((fi, tag, steps, [exp[st] for st in steps]))
    res = fork_map(fam_task, items, fresh=False, chunk=8)
    out = [[] for _ in fams]
    for (fi, tag, steps, exp), r in zip(meta, res):
        if r[0] != "ok":
            out[fi].append((tag, steps, 0, "runs", r[1][:200]))
            continue
        bad = [i for i, (a, b) in enumerate(zip(exp, r[1])) if a != b]
        if bad:
            out[fi].append((tag, steps, bad[0], exp[bad[0]], r[1][bad[0]]))
    return out


def fixed_families():
    return [
        ["rec", "H1", [["bit"], ["uns", 2], ["sgn", 4]], ["inherit", 2]],                      # Header(bit, uns2) <- Packet(+sgn4)
        ["rec", "H2", [["bit"], ["bv", 2], ["uns", 3]], ["inherit", 1, 2]],                    # two levels, every level adds a field
        ["rec", "H3", [["uns", 2], ["bit"]], ["inherit", 1, 2]],                               # most derived class adds nothing
        ["rec", "H4", [["bit"], ["bv", 3], ["uns", 3]], ["tinherit", 3, 1]],                   # templated base declaration, derived adds fields
        ["rec", "H5", [["rec", "H5i", [["bit"], ["uns", 2]], ["inherit", 1]], ["sarr", ["bit"], 2], ["bv", 2]], ["inherit", 1]],   # derived nests a derived
    ]


def gen_family(g, rng, maxw):
    for _ in range(50):
        t = g.rec(rng.randint(1, 2), maxw)
        if t[3][0] in ("inherit", "tinherit") and len(t[2]) >= 2:
            return t
    return None


# ---------------------------------------------------------------------------------------------------
# shrinking a failing type
# ---------------------------------------------------------------------------------------------------


def shrink_candidates(ty):
    k = ty[0]
    if k in ("arr", "sarr"):
        yield ty[1]
        if ty[2] > 1:
            yield [k, ty[1], ty[2] - 1]
        for c in shrink_candidates(ty[1]):
            if k == "sarr" or c[0] in ("bit", "bv", "uns", "sgn", "arr"):
                yield [k, c, ty[2]]
    elif k == "ser":
        yield ty[1]
        for c in shrink_candidates(ty[1]):
            if c != ["bool"]:
                yield ["ser", c]
    elif k == "enum":
        yield ty[2]
        if len(ty[3]) > 1:
            yield ["enum", ty[1], ty[2], ty[3][:1], ty[4]]
        if ty[2][0] in ("bv", "uns", "sgn") and ty[2][1] > 1:
            w = ty[2][1] - 1
            yield ["enum", ty[1], [ty[2][0], w], sorted({m & ((1 << w) - 1) for m in ty[3]}), False]
    elif k == "rec":
        name, fs, st = ty[1], ty[2], ty[3]
        for f in fs:
            yield f
        if st[0] != "flat":
            yield ["rec", name, fs, ["flat"]]
        if len(fs) > 1:
            for i in range(len(fs)):
                rest = fs[:i] + fs[i + 1:]
                if st[0] == "inherit":
                    cuts = sorted(max(1, min(len(rest), c - (1 if c > i else 0))) for c in st[1:])
                    yield ["rec", name, rest, ["inherit"] + cuts]
                elif st[0] == "tinherit":
                    yield ["rec", name, rest, ["tinherit", st[1], max(1, min(len(rest), st[2] - (1 if st[2] > i else 0)))]]
                else:
                    yield ["rec", name, rest, st]
        for i, f in enumerate(fs):
            for c in shrink_candidates(f):
                yield ["rec", name, fs[:i] + [c] + fs[i + 1:], st]
    elif k in ("bv", "uns", "sgn"):
        if ty[1] > 1:
            yield [k, ty[1] - 1]
        if k != "bv":
            yield ["bv", ty[1]]
    elif k in ("sfix", "ufix"):
        if ty[2] != 0:
            yield [k, ty[1], 0]
        if ty[1] > 1:
            yield [k, ty[1] - 1, ty[2]]
    elif k == "bool":
        yield ["bit"]


def size_of(ty):
    return len(json.dumps(ty))


def shrink_type(ty, fails, budget=60):
    cur = ty
    progress = True
    while progress and budget > 0:
        progress = False
        for c in sorted(shrink_candidates(cur), key=size_of):
            if size_of(c) >= size_of(cur) and width(c) >= width(cur):
                continue
            budget -= 1
            if budget <= 0:
                break
            if fails(c):
                cur = c
                progress = True
                break
    return cur


def check_types(types, bound, rng, n_random, do_py=True, do_sim=True, sim_bound=None, sim_select=None):
    """bound: exhaustive-width bound of the Python level; sim_bound (default = bound) of the compiled level;
    sim_select: indices of the types that are also compiled (default all; compiling a nested type takes seconds)"""
    sim_bound = bound if sim_bound is None else sim_bound
    pats, exh = [], []
    for t in types:
        ps, e = patterns_for(width(t), bound, rng, n_random)
        pats.append(ps)
        exh.append(e)
    model = model_values(types, pats)
    py = eval_py(types, pats, model) if do_py else [[] for _ in types]
    if do_sim:
        sel = list(range(len(types))) if sim_select is None else sorted(sim_select)
        stypes = [types[i] for i in sel]
        sp = [pats[i] if width(types[i]) <= sim_bound else patterns_for(width(types[i]), sim_bound, rng, n_random)[0] for i in sel]
        smodel = model_values(stypes, sp)
        ssim, ssrcs = eval_sim(stypes, sp, smodel)
        spats, sim, srcs = [[] for _ in types], [[] for _ in types], [None] * len(types)
        for i, a, b, c in zip(sel, sp, ssim, ssrcs):
            spats[i], sim[i], srcs[i] = a, b, c
    else:
        spats, sim, srcs = [[] for _ in types], [[] for _ in types], [None] * len(types)
    return pats, exh, model, py, sim, srcs, spats


# ---------------------------------------------------------------------------------------------------
# (c) BitField
#   descriptor ["bf", name, W, [field..]]; field = ["bit", i] | ["vec", kind, hi, lo] | ["sub", bfdesc, off, "int"|"slice"]
# ---------------------------------------------------------------------------------------------------


class BfGen:
    def __init__(self, rng):
        self.rng = rng
        self.n = 0

    def name(self):
        self.n += 1
        return f"B{self.n}"

    def bf(self, W, depth):
        rng = self.rng
        fields = []
        inners = []
        for _ in range(rng.randint(2, 5)):
            c = rng.random()
            if c < 0.25:
                fields.append(["bit", rng.randrange(W)])
            elif c < 0.75 or depth == 0 or W < 2:
                lo = rng.randrange(W)
                hi = rng.randint(lo, min(W - 1, lo + 4))
                fields.append(["vec", rng.choice(["bv", "uns", "sgn"]), hi, lo])
            else:
                if inners and rng.random() < 0.5:
                    inner = rng.choice(inners)     # the same inner class at a second offset
                else:
                    inner = self.bf(rng.randint(1, W), depth - 1)
                    inners.append(inner)
                off = rng.randint(0, W - inner[2])
                fields.append(["sub", inner, off, rng.choice(["int", "slice"])])
        return ["bf", self.name(), W, fields]


def fixed_bitfields():
    inner = ["bf", "NI", 4, [["vec", "bv", 3, 0], ["bit", 0], ["vec", "sgn", 3, 0], ["vec", "uns", 2, 0]]]
    mid = ["bf", "MI", 8, [["vec", "bv", 7, 0], ["sub", inner, 0, "int"], ["sub", inner, 0, "int"], ["sub", inner, 2, "int"]]]
    return [
        ["bf", "SB", 8, [["bit", 0], ["bit", 1], ["vec", "bv", 4, 2], ["vec", "bv", 7, 0], ["vec", "uns", 3, 0], ["vec", "sgn", 7, 5], ["bit", 7]]],
        ["bf", "OB", 10, [["sub", mid, 0, "int"], ["sub", mid, 2, "slice"], ["vec", "uns", 9, 8]]],
        ["bf", "S1", 1, [["bit", 0], ["vec", "bv", 0, 0]]],
        # three levels, few leaves (all storage forms are exercised on every leaf): Outer[12] > Mid[6] @5 > Inner[3] @2
        ["bf", "D3o", 12, [["vec", "bv", 3, 0], ["sub", ["bf", "D3m", 6, [["bit", 0], ["sub", ["bf", "D3i", 3, [["vec", "uns", 1, 0], ["bit", 2]]], 2, "slice"]]], 5, "int"]]],
        ["bf", "D2o", 6, [["sub", ["bf", "D2i", 3, [["vec", "sgn", 2, 1], ["bit", 0]]], 3, "int"], ["bit", 1]]],
    ]


def bf_defs(d, out, done):
    if d[1] in done:
        return
    done.add(d[1])
    lines = []
    for i, f in enumerate(d[3]):
        if f[0] == "sub":
            bf_defs(f[1], out, done)
            sel = f"{f[2]}" if f[3] == "int" else f"{f[2] + f[1][2] - 1}:{f[2]}"
            lines.append(f"    g{i}: {f[1][1]}[{sel}]")
        elif f[0] == "bit":
            lines.append(f"    g{i}: Field[{f[1]}]")
        else:
            suffix = {"bv": "", "uns": ".Unsigned", "sgn": ".Signed"}[f[1]]
            lines.append(f"    g{i}: Field[{f[2]}:{f[3]}]{suffix}")
    out.append(f"class {d[1]}(BitField[{d[2]}]):\n" + "\n".join(lines))


def bf_leaves(d, path=(), expr=""):
    """[dict(path=[(off, w)..], lo, w, kind, expr)]"""
    out = []
    for i, f in enumerate(d[3]):
        if f[0] == "bit":
            out.append({"path": list(path), "lo": f[1], "w": 1, "kind": "bit", "expr": f"{expr}.g{i}"})
        elif f[0] == "vec":
            out.append({"path": list(path), "lo": f[3], "w": f[2] - f[3] + 1, "kind": f[1], "expr": f"{expr}.g{i}"})
        else:
            out += bf_leaves(f[1], path + ((f[2], f[1][2]),), f"{expr}.g{i}")
    return out


def bf_port_type(l):
    return {"bit": "Bit", "bv": f"BitVector[{l['w']}]", "uns": f"Unsigned[{l['w']}]", "sgn": f"Signed[{l['w']}]"}[l["kind"]]


# ---- storage / qualifier forms of a BitField object.  A (nested) field must read and write exactly its declared absolute
# range of the OUTER object's bits whatever storage the outer object has:
#   write forms (one process per (leaf, form); the whole vector after the write is observed through `to_bits(outer)`):
#     refvar  Ref view `TOPBF(v)` of a Variable vector v (observed: v itself)
#     ownvar  `std.Variable[TOPBF](inp)`           (the BitField owns a Variable)
#     vardef  `std.Variable[TOPBF]()` then `bf @= inp`
#     fbvar   `std.from_bits[TOPBF](inp, std.Variable)`
#     copy    `TOPBF(own)`: BitField constructed from another BitField object (a Ref view of its storage); observed: to_bits(own)
#     ownsig  architecture-level `std.Signal[TOPBF]()`, whole + field signal assignment in a process
#     port    Ref view `TOPBF(self.<output port>)` of an output port, whole + field signal assignment
#   read forms (every leaf): port (Ref view of the input port), value (`std.Value[TOPBF](inp)`), sig (`std.Signal[TOPBF]()`
#     assigned as a whole), var (`std.Variable[TOPBF](inp)`)
BF_WRITE_FORMS = ["refvar", "ownvar", "ownsig", "vardef", "fbvar", "copy", "port"]
BF_READ_FORMS = ["port", "value", "sig", "var"]
BF_ALL_FORMS = False      # thorough / replay: every write form for every leaf


def bf_write_forms(d, n):
    """write forms exercised for leaf n of bitfield d"""
    if BF_ALL_FORMS or len(bf_leaves(d)) <= 4:
        return list(BF_WRITE_FORMS)
    rest = BF_WRITE_FORMS[1:]
    if len(bf_leaves(d)) > 12:      # many leaves: one rotating form besides the basic one (compile time is the budget)
        return ["refvar", rest[n % len(rest)]]
    return ["refvar", rest[(2 * n) % len(rest)], rest[(2 * n + 1) % len(rest)]]


def bf_source(d, with_entity=True):
    defs = []
    bf_defs(d, defs, set())
    src = HEADER + "\n\n" + "\n\n".join(defs) + f"\n\nTOPBF = {d[1]}\n"
    if not with_entity:
        return src
    W = d[2]
    lv = bf_leaves(d)
    ports = [f"    inp = Port.input(BitVector[{W}])", f"    rtb = Port.output(BitVector[{W}])"]
    arch, conc, procs, rvar = [], [], [], []
    arch.append("        sgr = std.Signal[TOPBF]()")
    conc += ["            nonlocal sgr", "            bf = TOPBF(self.inp)", "            bv = std.Value[TOPBF](self.inp)", "            sgr <<= self.inp",
             "            self.rtb <<= std.to_bits(std.from_bits[TOPBF](self.inp))"]
    for n, l in enumerate(lv):
        E, T = l["expr"], bf_port_type(l)
        ports += [f"    r_port{n} = Port.output({T})", f"    r_value{n} = Port.output({T})", f"    r_sig{n} = Port.output({T})",
                  f"    r_var{n} = Port.output({T})", f"    wv{n} = Port.input({T})"]
        conc += [f"            self.r_port{n} <<= bf{E}", f"            self.r_value{n} <<= bv{E}", f"            self.r_sig{n} <<= sgr{E}"]
        rvar.append(f"            self.r_var{n} <<= bvv{E}")
        for f in bf_write_forms(d, n):
            o = f"w_{f}{n}"
            ports.append(f"    {o} = Port.output(BitVector[{W}])")
            head = f"        @std.sequential\n        def p_{f}{n}():\n"
            if f == "refvar":
                body = [f"v = std.Variable[BitVector[{W}]](self.inp)", "b = TOPBF(v)", f"b{E} @= self.wv{n}", f"self.{o} <<= v"]
            elif f == "ownvar":
                body = ["b = std.Variable[TOPBF](self.inp)", f"b{E} @= self.wv{n}", f"self.{o} <<= std.to_bits(b)"]
            elif f == "vardef":
                body = ["b = std.Variable[TOPBF]()", "b @= self.inp", f"b{E} @= self.wv{n}", f"self.{o} <<= std.to_bits(b)"]
            elif f == "fbvar":
                body = ["b = std.from_bits[TOPBF](self.inp, std.Variable)", f"b{E} @= self.wv{n}", f"self.{o} <<= std.to_bits(b)"]
            elif f == "copy":
                body = ["own = std.Variable[TOPBF](self.inp)", "b = TOPBF(own)", f"b{E} @= self.wv{n}", f"self.{o} <<= std.to_bits(own)"]
            elif f == "ownsig":
                arch.append(f"        sg{n} = std.Signal[TOPBF]()")
                conc.append(f"            self.{o} <<= std.to_bits(sg{n})")
                body = [f"nonlocal sg{n}", f"sg{n} <<= self.inp", f"sg{n}{E} <<= self.wv{n}"]
            elif f == "port":
                arch.append(f"        po{n} = TOPBF(self.{o})")
                body = [f"nonlocal po{n}", f"po{n} <<= self.inp", f"po{n}{E} <<= self.wv{n}"]
            procs.append(head + "".join(f"            {x}\n" for x in body))
    procs.append("        @std.sequential\n        def p_rvar():\n            bvv = std.Variable[TOPBF](self.inp)\n" + "\n".join(rvar) + "\n")
    nl = "\n"
    return (src + "\n\nclass C17Bf(cohdl.Entity):\n" + nl.join(ports) + "\n\n    def architecture(self):\n" + nl.join(arch) +
            "\n\n        @std.concurrent\n        def logic():\n" + nl.join(conc) + "\n\n" + nl.join(procs))


def bf_outputs(d):
    """[(port name, 'read'|'write', form, leaf index)] in the order of the simulation row"""
    lv = bf_leaves(d)
    out = []
    for n in range(len(lv)):
        for f in BF_READ_FORMS:
            out.append((f"r_{f}{n}", "read", f, n))
    for n in range(len(lv)):
        for f in bf_write_forms(d, n):
            out.append((f"w_{f}{n}", "write", f, n))
    return out


def field_int(kind, bits):
    n = int(bits, 2)
    return n - (1 << len(bits)) if kind == "sgn" and bits[0] == "1" else n


BF_PY_FORMS = ["ctor", "from_bits", "value", "signal", "variable", "fb_signal", "copy"]


def bf_make(T, bv, how):
    """the storage / qualifier forms available without an entity context"""
    from cohdl import std

    if how == "ctor":
        return T(bv)                                  # Ref view of the given vector
    if how == "from_bits":
        return std.from_bits[T](bv)                   # qualifier Value
    if how == "value":
        return std.Value[T](bv)
    if how == "signal":
        return std.Signal[T](bv)                      # the BitField owns a Signal initialised with bv
    if how == "variable":
        return std.Variable[T](bv)
    if how == "fb_signal":
        return std.from_bits[T](bv, std.Signal)
    if how == "copy":
        return T(std.Variable[T](bv))                 # constructed from another BitField object
    raise ValueError(how)


def bf_alias(x, f, l):
    """'1' when the field object f is a view of the storage vector of the BitField x,
    '0' when it lives in a different object, '?' when that cannot be told (constants, or the
    private reference bookkeeping of cohdl changed - then nothing is claimed)"""
    try:
        vec = x._vec
        root = getattr(vec, "_root", None)
        froot = getattr(f, "_root", None)
        if root is None or froot is None:
            return "?"
        return "1" if froot is root else "0"     # the position inside the storage is checked behaviourally in the compiled forms
    except Exception:  # noqa
        return "?"


def bf_py_task(item):
    """Python level: for every storage form (BF_PY_FORMS) the value of every leaf, to_bits of the object, and whether every
    leaf is a view of the object's own storage at the declared absolute position -> per pattern one row of tokens"""
    d, patterns = item
    import_cohdl()
    from cohdl import std, BitVector

    mod = load_design_module(bf_source(d, with_entity=False), tag="c17bf")
    T = mod.TOPBF
    lv = bf_leaves(d)
    out = {"count": int(std.count_bits(T)), "rows": []}
    for j, p in enumerate(patterns):
        bv = BitVector[d[2]](p)
        row = []
        for how in (BF_PY_FORMS if j < 8 or j % 16 == 0 else BF_PY_FORMS[:2]):
            try:
                x = bf_make(T, bv, how)
                for l in lv:
                    f = eval("x" + l["expr"], {"x": x})
                    row.append(str(int(bool(f)) if l["kind"] == "bit" else int_of(f) if l["kind"] != "bv" else int(bits_str(f), 2)))
                row.append(bits_str(std.to_bits(x)))
                row.append("".join(bf_alias(x, eval("x" + l["expr"], {"x": x}), l) for l in lv).replace("?", "1"))
            except BaseException as e:  # noqa
                row.append(f"!{how}:{classify(e)}")
        out["rows"].append(" ".join(row))
    return out


def bf_sim_task(item):
    vhdl, d, patterns, wvals = item
    lv = bf_leaves(d)
    dsg = Design17(vhdl)
    dsg.set("inp", 0)
    for n in range(len(lv)):
        dsg.set(f"wv{n}", 0)
    dsg.initialise()
    out = []
    W = d[2]
    for p, wv in zip(patterns, wvals):
        dsg.set("inp", int(p, 2))
        for n, (l, v) in enumerate(zip(lv, wv)):
            dsg.set(f"wv{n}", field_int(l["kind"], v))
        dsg.settle()
        g = lambda name: "-" if (x := dsg.get(name)) is None else str(int(x))
        gb = lambda name: "-" if (x := dsg.get(name)) is None else format(x, f"0{W}b")
        out.append(" ".join([gb("rtb")] + [(g if kind == "read" else gb)(name) for name, kind, f, n in bf_outputs(d)]))
    return out


def path_sexp(l):
    return "(" + " ".join(f"({o} {w})" for o, w in l["path"]) + ")"


def check_bitfields(bfs, bound, rng, n_random):
    """-> (per bitfield mismatch list, cases info)"""
    pats, wvals, reqs = [], [], []
    for d in bfs:
        ps, _ = patterns_for(d[2], bound, rng, n_random)
        lv = bf_leaves(d)
        wv = [[format(rng.getrandbits(l["w"]), f"0{l['w']}b") for l in lv] for _ in ps]
        pats.append(ps)
        wvals.append(wv)
        for p, wrow in zip(ps, wv):
            for l, v in zip(lv, wrow):
                reqs.append(f"bfread {d[2]} {path_sexp(l)} {l['lo']} {l['w']} {p}")
                reqs.append(f"bfwrite {d[2]} {path_sexp(l)} {l['lo']} {v} {p}")
    ans = lean_io.query("C17", reqs)
    srcs = [(bf_source(d), "C17Bf") for d in bfs]
    comp = compile_many(srcs)
    pyres = fork_map(bf_py_task, [(d, ps) for d, ps in zip(bfs, pats)])
    simres = fork_map(bf_sim_task, [(c["vhdl"], d, ps, wv) for d, ps, wv, c in zip(bfs, pats, wvals, comp) if c["ok"]], fresh=False, chunk=2)
    simres = iter(simres)
    out, k = [], 0
    for d, ps, wv, c, pr in zip(bfs, pats, wvals, comp, pyres):
        lv = bf_leaves(d)
        mm = []
        seen_whats = set()
        sr = next(simres) if c["ok"] else None
        if not c["ok"]:
            mm.append(("compile", None, "-", "accepted", c["errtype"]))
        elif sr[0] != "ok":
            mm.append(("simulate", None, "-", "executable VHDL", sr[1][:200]))
            sr = None
        if pr[0] != "ok":
            mm.append(("python", None, "-", "runs", pr[1][:200]))
            pr = None
        elif pr[1]["count"] != d[2]:
            mm.append(("count_bits", None, "-", str(d[2]), str(pr[1]["count"])))
        for j, (p, wrow) in enumerate(zip(ps, wv)):
            reads, writes = [], []
            for l, v in zip(lv, wrow):
                rb, wb = ans[k], ans[k + 1]
                k += 2
                if rb.startswith("err") or wb.startswith("err") or rb == "bad-op":
                    raise InfraError(f"bitfield generator produced an out-of-range field {l} in {d}")
                reads.append(str(field_int(l["kind"], rb)))
                writes.append(wb)
            if pr is not None:
                forms = BF_PY_FORMS if j < 8 or j % 16 == 0 else BF_PY_FORMS[:2]
                e = [t for how in forms for t in reads + [p, "1" * len(lv)]]
                o = pr[1]["rows"][j].split(" ")
                if o != e:
                    n = [a == b for a, b in zip(e, o)].index(False) if len(e) == len(o) else 0
                    how, kk = forms[min(n // (len(lv) + 2), len(forms) - 1)], n % (len(lv) + 2)
                    if len(e) != len(o):
                        bad = [t for t in o if t.startswith("!")]
                        mm.append((f"python construction {bad[0] if bad else ''}", None, p, "runs", bad[0] if bad else "?"))
                    elif kk < len(lv):
                        mm.append((f"read (python, {how})", lv[kk], p, e[n], o[n]))
                    elif kk == len(lv):
                        mm.append((f"to_bits (python, {how})", None, p, e[n], o[n]))
                    else:
                        a = o[n].index("0") if "0" in o[n] else 0
                        mm.append((f"field is not a view of the BitField's own storage (python, {how})", lv[a], p, "view", "detached"))
            if sr is not None:
                outs = bf_outputs(d)
                exp = [p] + [reads[n] if kind == "read" else writes[n] for name, kind, f, n in outs]
                o = sr[1][j].split(" ")
                if o != exp:
                    first = True
                    for n in [i for i, (a, b) in enumerate(zip(exp, o)) if a != b]:
                        if n == 0:
                            m = ("emitted to_bits(from_bits(inp))", None, p, exp[0], o[0])
                        else:
                            name, kind, f, ln = outs[n - 1]
                            m = (f"emitted read [{f}]", lv[ln], p, exp[n], o[n]) if kind == "read" else \
                                (f"emitted write [{f}]", lv[ln], p + " <- " + wrow[ln], exp[n], o[n])
                        # one entry per pattern, plus the first occurrence of every other kind of failing access
                        if first or m[0] not in seen_whats:
                            mm.append(m)
                        seen_whats.add(m[0])
                        first = False
        out.append(mm)
    return out, pats, srcs


# ---------------------------------------------------------------------------------------------------
# run / replay
# ---------------------------------------------------------------------------------------------------


def report_type_failure(ctx, level, t, mm, bound, src=None):
    """shrink the failing type, then report the first mismatch of the minimal type"""
    global SIM_ALL_MODES
    SIM_ALL_MODES = True     # candidates are small: every construction path in their compiled wrapper

    def ev(c):
        rng = __import__("random").Random(0)
        try:
            pats, exh, model, py, sim, srcs, _ = check_types([c], bound, rng, 8, do_py=(level == "py"), do_sim=(level == "sim"))
        except InfraError:
            return None
        return (py if level == "py" else sim)[0], (srcs[0][0] if srcs[0] else None)

    def fails(c):
        r = ev(c)
        return bool(r and r[0])

    small = shrink_type(t, fails)
    r = ev(small) if small is not t else (mm, src)
    mm2 = r[0] if r and r[0] else mm
    what, p, exp, obs = mm2[0]
    sig = f"{level}:{what}:{ty_short(small)}:{p}"
    text = (f"{'Python-level' if level == 'py' else 'compiled'} {what} of {ty_short(small)} at {p}: documented layout gives `{exp}`, "
            f"the real code gives `{obs}` ({len(mm2)} differing cases for this type)")
    ctx.report(sig, text, {"level": level, "type": small, "type_sexp": ty_sexp(small), "what": what, "input": p, "expected": exp,
                           "observed": obs, "original_type": t, "bound": bound,
                           "source": entity_source(small) if level == "sim" else type_module_source(small[1] if small[0] == "ser" else small)})


def report_family_failure(ctx, t, mm):
    def fails_with(c):
        if c[0] != "rec" or c[3][0] not in ("inherit", "tinherit") or len(c[2]) < 2:
            return None
        try:
            r = check_families([c], __import__("random").Random(0), 1)[0]
        except InfraError:
            return None
        return r or None

    small = shrink_type(t, lambda c: bool(fails_with(c)), budget=25)
    mm2 = fails_with(small) if small is not t else mm
    mm2 = mm2 or mm
    tag, steps, i, exp, obs = min(mm2, key=lambda m: m[2])
    members = family_members(small if mm2 is not mm else t)[0]
    tt = small if mm2 is not mm else t
    m, op = steps[i]
    hist = " ; ".join(f"{o}({ty_short(members[mm_])})" for mm_, o in steps[: i + 1])
    ctx.report(f"fam:{ty_short(tt)}:{op}:{ty_short(members[m])}:{tag}",
               f"record hierarchy {ty_short(tt)}: after the operations [{hist}] in one interpreter, {op} of {ty_short(members[m])} gives `{obs}`, "
               f"documented: `{exp}` ({len(mm2)} failing orders of first use)",
               {"level": "fam", "type": tt, "order": tag, "steps": [[a, b] for a, b in steps[: i + 1]], "members": [ty_short(x) for x in members],
                "op": op, "member": ty_short(members[m]), "expected": exp, "observed": obs, "source": family_source(tt)})


def bf_chain(d, expr):
    """the bitfield reduced to the single chain of declarations that leads to the leaf with access expression expr"""
    idx = [int(x[1:]) for x in expr.split(".") if x]
    f = d[3][idx[0]]
    if f[0] == "sub":
        return ["bf", d[1], d[2], [["sub", bf_chain(f[1], "." + ".".join(f"g{i}" for i in idx[1:])), f[2], f[3]]]]
    return ["bf", d[1], d[2], [f]]


def report_bf_failure(ctx, d, mm, src, sim_bound, bound):
    global BF_ALL_FORMS
    BF_ALL_FORMS = True
    pick = lambda ms: next((m for m in ms if m[0].startswith("emitted write")), next((m for m in ms if m[0].startswith("emitted")), ms[0]))
    what, l, p, exp, obs = pick(mm)
    if l is not None:
        small = bf_chain(d, l["expr"])
        try:
            mm2, _, srcs2 = check_bitfields([small], sim_bound, __import__("random").Random(0), 24)
            if mm2[0]:
                d, mm, src = small, mm2[0], srcs2[0]
                what, l, p, exp, obs = pick(mm)
        except InfraError:
            pass
    if l is not None:
        rng_txt = f"path={'/'.join(f'{o}+{w}' for o, w in l['path']) or '-'}:range={l['lo'] + l['w'] - 1}:{l['lo']}:{l['kind']}"
    else:
        rng_txt = "whole"
    kinds = sorted({m[0] for m in mm})
    ctx.report(f"bf:{what}:W={d[2]}:{rng_txt}",
               f"BitField[{d[2]}] {what} of field {rng_txt} on {p}: declared range gives `{exp}`, the real code gives `{obs}` "
               f"({len(mm)} differing cases for this bitfield; failing accesses: {', '.join(kinds)})",
               {"level": "bf", "bitfield": d, "what": what, "leaf": l, "input": p, "expected": exp, "observed": obs, "failing_accesses": kinds,
                "source": src[0], "bound": sim_bound})


def run(ctx: Ctx):
    rng = ctx.rng
    ctx.rule = ("type compositions: a fixed list (every kind, the upstream test shapes, arrays of records with uneven field widths, "
                "inherited / templated records, non-dense enums, FlagEnum, fixed point, Serialized) plus random compositions "
                "(nesting depth <= 3 quick / 4 thorough, total width <= 10 / 14); for each type every bit pattern up to the "
                "width bound (python level 8 quick / 10 thorough, compiled level 6 / 8), above it zeros / ones / walking one / walking zero / random; a case = one "
                "(type, pattern) at one level (python, compiled); non-trivial = composite type (depth >= 1) and pattern not all-0/all-1; "
                "distinct = distinct (type shape, pattern, level).  BitFields: fixed + random declarations (nested, overlapping, "
                "typed views, nesting depth 1..3), every leaf read and written for every pattern (width <= bound) with random written values, "
                "for every storage form of the BitField object (Ref view of a Variable / of a port, std.Variable[BF](v), std.Variable[BF]() "
                "+ whole assignment, from_bits with a Variable qualifier, copy from another BitField, architecture-level std.Signal[BF](), "
                "std.Value; at Python level also Signal / Variable / from_bits(.., Signal) with a view-of-own-storage check); the vector after "
                "a write is observed through to_bits of the OUTER object.  Every value of a "
                "type containing a record is built through every construction path (keywords in declaration order, positional, keywords "
                "reversed / rotated, mixed positional+keyword, copy construction of a shuffled value; in compiled designs also a default-"
                "constructed Variable with fields assigned one by one in shuffled order, T(Null), T(Full)), at every record node, and "
                "to_bits of each must equal the same documented layout")
    global SIM_ALL_MODES
    SIM_ALL_MODES = not ctx.quick
    global BF_ALL_FORMS
    BF_ALL_FORMS = not ctx.quick
    bound = ctx.scale(8, 10)
    n_rand = ctx.scale(160, 700)
    maxd = ctx.scale(3, 4)
    g = Gen(rng)
    types = fixed_types()
    for _ in range(n_rand):
        types.append(g.top(rng.randint(1, maxd), rng.randint(3, ctx.scale(10, 14))))
    # drop exact duplicates of shape
    seen, uniq = set(), []
    for t in types:
        k = ty_short(t)
        if k not in seen:
            seen.add(k)
            uniq.append(t)
    types = uniq
    sim_bound = ctx.scale(6, 8)
    n_fixed = len(fixed_types())
    rest = list(range(n_fixed, len(types)))
    rng.shuffle(rest)
    sim_select = list(range(n_fixed)) + rest[: ctx.scale(22, 400)]
    pats, exh, model, py, sim, srcs, spats = check_types(types, bound, rng, 24, sim_bound=sim_bound, sim_select=sim_select)
    n_py = n_sim = 0
    reported = 0
    for t, ps, e, (cnt, vals, ivals), mpy, msim, src, sps in zip(types, pats, exh, model, py, sim, srcs, spats):
        short = ty_short(t)
        d = depth(t)
        for kd in kinds_of(t):
            ctx.dist["kind:" + kd] += 1
        ctx.dist[f"depth:{d}"] += 1
        ctx.dist[f"width:{width(t)}"] += 1
        ctx.dist["patterns:" + ("exhaustive" if e else "sampled")] += 1
        for level in ("py", "sim"):
            for p in (ps if level == "py" else sps):
                ctx.case(key=(short, p, level), nontrivial=(d >= 1 and "0" in p and "1" in p), kind=f"level:{level}")
        if len(ctx.samples) < 4 and d >= 2:
            ctx.samples.append({"type": short, "pattern": ps[len(ps) // 3], "model_value": vals[len(ps) // 3]})
        n_py += len(mpy)
        n_sim += len(msim)
        if mpy and reported < 4:
            reported += 1
            report_type_failure(ctx, "py", t, mpy, bound)
        if msim and not mpy and reported < 4:
            reported += 1
            report_type_failure(ctx, "sim", t, msim, sim_bound, src[0] if src else None)
    ctx.obligation("correspondence (a): std.count_bits / from_bits / to_bits on constants = Lean countBits / fromBits / toBits, bit by bit, both directions",
                   n_py == 0, detail=f"{len(types)} types, {sum(len(p) for p in pats)} patterns, {n_py} mismatches")
    ctx.obligation("correspondence (b): emitted round-trip entity (from_bits leaves, to_bits of from_bits, to_bits of constructed value) = Lean model on all driven patterns",
                   n_sim == 0, detail=f"{len(types)} designs, {n_sim} mismatches")

    # ---- class hierarchies x orders of first use
    fams = fixed_families()
    for _ in range(ctx.scale(8, 60)):
        t = gen_family(g, rng, rng.randint(4, 9))
        if t is not None:
            fams.append(t)
    fmm = check_families(fams, rng, ctx.scale(1, 4))
    n_fam = 0
    n_scen = 0
    for t, mm in zip(fams, fmm):
        nm = len(family_members(t)[0])
        n_scen += len(family_scenarios(nm, __import__("random").Random(0), ctx.scale(1, 4)))
        ctx.case(key=("fam", ty_short(t)), nontrivial=True, kind="level:hierarchy-order")
        ctx.dist["hierarchy:" + t[3][0]] += 1
        n_fam += len(mm)
    failing = sorted([(t, mm) for t, mm in zip(fams, fmm) if mm], key=lambda x: size_of(x[0]))
    for t, mm in failing[:2]:
        report_family_failure(ctx, t, mm)
    ctx.obligation("correspondence (a2): every class of a record hierarchy, a record nesting the derived record and an array of it give the documented "
                   "count_bits / to_bits / from_bits after EVERY operation, for every order of first use in one interpreter",
                   n_fam == 0, detail=f"{len(fams)} hierarchies, {n_scen} orders, {n_fam} orders with a wrong result")

    # ---- snapshots across coroutine states
    cts = co_types()
    cmm, n_acc = check_coroutine_snapshots(cts)
    n_co = 0
    for t, mm in zip(cts, cmm):
        ctx.case(key=("co", ty_short(t)), nontrivial=True, kind="level:coroutine-snapshot")
        n_co += len(mm)
        if mm and reported < 6:
            reported += 1
            what, p, exp, obs = mm[0]
            ctx.report(f"co:{ty_short(t)}", f"compiled {what}: {ty_short(t)}, source {p}: the value at the point of the call is `{exp}`, the emitted logic delivers `{obs}`",
                       {"level": "co", "type": t, "what": what, "input": p, "expected": exp, "observed": obs, "source": co_source(t)})
    ctx.obligation("correspondence (b2): to_bits taken in one coroutine state and used in a later one is either rejected or delivers the value at the point of the call",
                   n_co == 0, detail=f"{len(cts)} designs, {n_acc} accepted by the compiler, {n_co} mismatches")

    # ---- BitFields
    bg = BfGen(rng)
    bfs = fixed_bitfields() + [bg.bf(rng.randint(2, ctx.scale(8, 10)), rng.randint(0, 2)) for _ in range(ctx.scale(9, 60))]
    bmm, bpats, bsrcs = check_bitfields(bfs, sim_bound, rng, 24)
    n_bf = 0
    failing = []
    for d, mm, ps, src in zip(bfs, bmm, bpats, bsrcs):
        lv = bf_leaves(d)
        ctx.dist["bitfield:leaves"] += len(lv)
        ctx.dist["bitfield:nested"] += sum(1 for l in lv if l["path"])
        ctx.dist[f"bitfield:depth:{max(len(l['path']) for l in lv) + 1}"] += 1
        for p in ps:
            ctx.case(key=("bf", json.dumps(d), p), nontrivial=("0" in p and "1" in p), kind="level:bitfield")
        n_bf += len(mm)
        if mm:
            failing.append((d, mm, src))
    for d, mm, src in sorted(failing, key=lambda x: size_of(x[0]))[:2]:
        report_bf_failure(ctx, d, mm, src, sim_bound, bound)
    ctx.obligation("correspondence (c): BitField field reads / writes (constants and emitted logic) = Lean readPath / writePath at the declared absolute ranges",
                   n_bf == 0, detail=f"{len(bfs)} bitfields, {sum(len(bf_leaves(d)) * len(p) for d, p in zip(bfs, bpats))} field accesses x2, {n_bf} mismatches")
    ctx.exhaustive = False
    ctx.notes.append(f"all bit patterns are enumerated for every type of width <= {bound} (python level) / <= {sim_bound} (compiled level, bitfields); the set of type compositions is sampled")


def replay(ctx, data):
    global SIM_ALL_MODES, BF_ALL_FORMS
    SIM_ALL_MODES = BF_ALL_FORMS = True
    r = data["replay"]
    rng = __import__("random").Random(0)
    if r["level"] == "fam":
        mm = check_families([r["type"]], rng, 2)[0]
        print("hierarchy:", ty_short(r["type"]), " members:", [ty_short(x) for x in family_members(r["type"])[0]])
        for tag, steps, i, exp, obs in mm[:8]:
            print(f"order {tag}: step {i} {steps[i]}: expected {exp} observed {obs}")
        return 1 if mm else 0
    if r["level"] == "co":
        mm, n_acc = check_coroutine_snapshots([r["type"]])
        print("type     :", ty_short(r["type"]), "accepted" if n_acc else "rejected by the compiler")
        for m in mm[0]:
            print("mismatch : %s at %s: expected %s observed %s" % m)
        return 1 if mm[0] else 0
    if r["level"] == "bf":
        mm, pats, srcs = check_bitfields([r["bitfield"]], r.get("bound", 8), rng, 24)
        for m in mm[0][:10]:
            print("mismatch:", m)
        print("bitfield :", json.dumps(r["bitfield"]))
        print("expected :", r["expected"], " observed at report time:", r["observed"])
        return 1 if mm[0] else 0
    t = r["type"]
    pats, exh, model, py, sim, srcs, _ = check_types([t], r.get("bound", 8), rng, 24, do_py=(r["level"] == "py"), do_sim=(r["level"] == "sim"))
    mm = (py if r["level"] == "py" else sim)[0]
    print("type     :", ty_short(t), ty_sexp(t))
    for m in mm[:10]:
        print("mismatch : %s at %s: expected %s observed %s" % m)
    return 1 if mm else 0
