"""Build / audit the Lean project and talk to the compiled model driver."""

import hashlib
import json
import os
import re
import subprocess
import time
from pathlib import Path

from .common import VERIF, InfraError

LEAN = VERIF / "lean"
BIN = LEAN / ".lake" / "build" / "bin"
ALLOWED_AXIOMS = {"propext", "Classical.choice", "Quot.sound"}
FORBIDDEN = re.compile(r"\bsorry\b|\badmit\b|^\s*axiom\s|native_decide|bv_decide|implemented_by|\bunsafe\s|maxHeartbeats\s+0\b", re.M)


def _sources():
    return sorted(p for p in LEAN.rglob("*.lean") if ".lake" not in p.parts)


def _strip_comments(text):
    text = re.sub(r"/-.*?-/", "", text, flags=re.S)
    return re.sub(r"--.*", "", text)


def source_hash():
    h = hashlib.sha256()
    for p in _sources():
        if p.name.startswith("Audit"):
            continue
        h.update(str(p.relative_to(LEAN)).encode())
        h.update(p.read_bytes())
    return h.hexdigest()


def build(targets=("CohdlVerif",), timeout=3000):
    """lake build; returns (ok, output)"""
    t0 = time.time()
    p = subprocess.run(["lake", "build", *targets], cwd=LEAN, capture_output=True, text=True, timeout=timeout)
    return p.returncode == 0, (p.stdout + p.stderr)[-6000:]


def prop_theorems():
    """{Cxx: [theorem names]} from Props/*.lean (theorems are declared with their full name `Cxx.name`)"""
    out = {}
    for p in sorted((LEAN / "CohdlVerif" / "Props").glob("C*.lean")):
        text = _strip_comments(p.read_text())
        names = re.findall(r"^\s*theorem\s+([A-Za-z0-9_.'!?]+)", text, flags=re.M)
        out[p.stem] = names
    return out


def audit(only=None):
    """grep for forbidden constructs and #print axioms of every property theorem.
    Cached by source hash in .lake/audit.json.  Returns {theorem: [axioms]}.
    only=Cxx (development mode, env COHDL_VERIF_ONLY=1): audit just that property's theorems."""
    cache = LEAN / ".lake" / (f"audit_{only}.json" if only else "audit.json")
    h = source_hash()
    if cache.exists():
        try:
            c = json.loads(cache.read_text())
            if c.get("hash") == h:
                return c["axioms"]
        except Exception:
            pass
    for p in _sources():
        if p.name.startswith("Audit"):
            continue
        m = FORBIDDEN.search(_strip_comments(p.read_text()))
        if m:
            raise InfraError(f"forbidden construct {m.group(0)!r} in {p}")
    thms = prop_theorems()
    if only:
        thms = {only: thms.get(only, [])}
    lines = [f"import CohdlVerif.Props.{k}" for k in thms]
    for k, names in thms.items():
        for n in names:
            lines.append(f"#print axioms {n}")
    afile = LEAN / "CohdlVerif" / (f"Audit_{only}.lean" if only else "Audit.lean")
    afile.write_text("\n".join(lines) + "\n")
    p = subprocess.run(["lake", "env", "lean", str(afile.relative_to(LEAN))], cwd=LEAN, capture_output=True, text=True, timeout=1800)
    if only:
        afile.unlink(missing_ok=True)
    if p.returncode != 0:
        raise InfraError("audit failed:\n" + (p.stdout + p.stderr)[-3000:])
    axioms = {}
    out = p.stdout.replace("\n  ", " ")
    for m in re.finditer(r"'([^']+)' (depends on axioms: \[([^\]]*)\]|does not depend on any axioms)", out):
        axs = [a.strip() for a in (m.group(3) or "").split(",") if a.strip()]
        axioms[m.group(1)] = axs
    for k, names in thms.items():
        for n in names:
            if n not in axioms:
                raise InfraError(f"audit: no axiom report for {n}")
            bad = set(axioms[n]) - ALLOWED_AXIOMS
            if bad:
                raise InfraError(f"audit: theorem {n} depends on non-standard axioms {bad}")
    cache.write_text(json.dumps({"hash": h, "axioms": axioms}))
    return axioms


def ensure_built(prop=None):
    """normal mode: re-check the whole library (every Props module) + this property's driver.
    development mode (COHDL_VERIF_ONLY=1): only this property's Props module and driver, so that a
    half-edited file of another property does not block the run."""
    only = prop if (prop and os.environ.get("COHDL_VERIF_ONLY")) else None
    targets = [f"CohdlVerif.Props.{prop}" if only else "CohdlVerif"] + ([f"model_{prop.lower()}"] if prop else [])
    ok, out = build(tuple(targets))
    if not ok:
        raise InfraError("lake build failed:\n" + out)
    return audit(only)


def theorems_for(prop, axioms):
    names = prop_theorems().get(prop, [])
    return [{"name": n, "ok": True, "axioms": axioms.get(n, [])} for n in names]


def query(prop, lines, timeout=3000):
    """send request lines to the compiled model driver of property `prop` (lean/Drivers/Cxx.lean),
    return the answer lines (exactly one per request)"""
    lines = list(lines)
    if not lines:
        return []
    exe = BIN / f"model_{prop.lower()}"
    if not exe.exists():
        raise InfraError(f"model driver {exe} not built")
    for l in lines:
        if "\n" in l:
            raise InfraError("request contains a newline")
    data = "\n".join(lines) + "\n"
    p = subprocess.run([str(exe)], input=data, capture_output=True, text=True, timeout=timeout)
    if p.returncode != 0:
        raise InfraError("model driver failed: " + p.stderr[-2000:])
    out = p.stdout.split("\n")
    if out and out[-1] == "":
        out.pop()
    if len(out) != len(lines):
        raise InfraError(f"model driver answered {len(out)} lines for {len(lines)} requests")
    return out


def leanchecker(prop, timeout=3000):
    """thorough tier: independent re-check of the compiled Props module (and what it imports) by leanchecker"""
    p = subprocess.run(["lake", "env", "leanchecker", f"CohdlVerif.Props.{prop}"], cwd=LEAN, capture_output=True, text=True, timeout=timeout)
    if p.returncode != 0:
        raise InfraError("leanchecker rejected CohdlVerif.Props." + prop + ":\n" + (p.stdout + p.stderr)[-2000:])
    return True
