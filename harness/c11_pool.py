"""C11 - pool of designs for the history check (part of harness/c11.py; kept apart for readability).

Every design is the source text of a module defining the entity class `E`.  Each entry carries
  * `expect`  : 'ok' | 'reject'  - the verdict of a FRESH interpreter (checked on every run)
  * `phase`   : for rejected designs the compiler phase that raises (checked on every run from the traceback)
  * `script`  : the design's event script for the Lean model `CohdlVerif.C11.run` - the bracketed regions
                (`<kind[:arg]` ... `>`), actions and the crash point (`!`) the compilation goes through, written
                down from reading the code path the design takes.  The model's global state after the script is
                compared with the snapshot of the real module globals after compiling the design.
Tokens of a script (see lean/CohdlVerif/Model/C11.lean, `parseEv`):
  <conv <arch:e >  <blk <trace <ctx:v <pfx:p <hdl <apply <ret <always <ircall <irapply <sm <loop   enter a region
  >                                                       leave the innermost open region normally
  !                                                       crash point (exception raised here)
  P:p  S:p  N:n   new prefix p / sub-prefix / std.name(n)        U  read the current std.SequentialContext
  F:f  T:t        FunctionDefinition cache / type cache lookup   L:a,b,c  library set site   M:x:a,b,c  set membership site
  O:x             emit token x
"""

HEAD = '''
import cohdl
from cohdl import std, Bit, BitVector, Unsigned, Signed, Port, Signal, Variable, Null, Full, true, false
'''

# ---------------------------------------------------------------------------------------------------
# accepted designs
# ---------------------------------------------------------------------------------------------------
A_COMB = HEAD + '''
class E(cohdl.Entity):
    a = Port.input(Bit)
    b = Port.input(Bit)
    o = Port.output(Bit)

    def architecture(self):
        @std.concurrent
        def logic():
            self.o <<= self.a & self.b
'''

A_SEQ = HEAD + '''
def pick(x, y, s):
    if s:
        return x
    return y

class E(cohdl.Entity):
    clk = Port.input(Bit)
    a = Port.input(Unsigned[4])
    b = Port.input(Unsigned[4])
    s = Port.input(Bit)
    o = Port.output(Unsigned[4], default=Null)

    def architecture(self):
        @std.sequential(std.Clock(self.clk))
        def proc():
            v = pick(self.a, self.b, self.s)
            if self.s:
                self.o <<= v + 1
            else:
                self.o <<= v
'''

A_CORO = HEAD + '''
class E(cohdl.Entity):
    clk = Port.input(Bit)
    a = Port.input(Bit)
    o = Port.output(Bit, default=Null)

    def architecture(self):
        @std.sequential(std.Clock(self.clk))
        async def proc():
            await self.a
            self.o <<= True
            await true
            self.o <<= False
'''

A_CORO_LOOP = HEAD + '''
async def pulse(sig, n):
    cnt = Signal[Unsigned[3]](0)
    while True:
        await true
        if cnt == n:
            break
        if sig:
            continue
        cnt <<= cnt + 1
    return cnt

class E(cohdl.Entity):
    clk = Port.input(Bit)
    a = Port.input(Bit)
    o = Port.output(Unsigned[3], default=Null)

    def architecture(self):
        @std.sequential(std.Clock(self.clk))
        async def proc():
            await self.a
            self.o <<= await pulse(self.a, 5)
'''

A_PFX_TRACE = HEAD + '''
class E(cohdl.Entity):
    clk = Port.input(Bit)
    a = Port.input(Bit)
    o = Port.output(Bit, default=Null)

    def architecture(self):
        @std.sequential(std.Clock(self.clk))
        def proc():
            with std.prefix("foo"):
                s = std.Signal[Bit](name=std.name("sig"))
            with std.prefix("foo"):
                t = std.Signal[Bit](name=std.name("sig"))
            s <<= self.a
            t <<= s
            self.o <<= t
'''

A_PFX_ARCH = HEAD + '''
class E(cohdl.Entity):
    clk = Port.input(Bit)
    a = Port.input(Bit)
    o = Port.output(Bit, default=Null)

    def architecture(self):
        with std.prefix("blk"):
            s = std.Signal[Bit](name=std.name("stage"))

            @std.sequential(std.Clock(self.clk))
            def proc():
                inner = std.Signal[Bit](name=std.name("inner"))
                inner <<= self.a
                s.next = inner

        with std.prefix("blk"):
            @std.concurrent
            def logic():
                self.o <<= s
'''

A_ALWAYS = HEAD + '''
class E(cohdl.Entity):
    clk = Port.input(Bit)
    a = Port.input(Bit)
    b = Port.input(Bit)
    o = Port.output(Bit, default=Null)
    p = Port.output(Bit)

    def architecture(self):
        @std.sequential(std.Clock(self.clk))
        def proc():
            both = cohdl.always(self.a & self.b)
            with cohdl.always:
                self.p <<= self.a | self.b
            if both:
                self.o <<= True
'''

SUBS = '''
class SubA(cohdl.Entity{ATTR_A}):
    a = Port.input(Bit)
    o = Port.output(Bit)

    def architecture(self):
        @std.concurrent
        def logic():
            self.o <<= self.a

class SubB(cohdl.Entity{ATTR_B}):
    a = Port.input(Bit)
    o = Port.output(Bit)

    def architecture(self):
        @std.concurrent
        def logic():
            self.o <<= ~self.a

class SubC(cohdl.Entity{ATTR_C}):
    a = Port.input(Bit)
    o = Port.output(Bit)

    def architecture(self):
        @std.concurrent
        def logic():
            self.o <<= self.a ^ self.a
'''

TOP_SUBS = '''
class E(cohdl.Entity):
    a = Port.input(Bit)
    o = Port.output(Bit)
    p = Port.output(Bit)
    q = Port.output(Bit)

    def architecture(self):
        SubA(a=self.a, o=self.o)
        SubB(a=self.a, o=self.p)
        SubC(a=self.a, o=self.q)
'''

A_SUB = HEAD + SUBS.format(ATTR_A="", ATTR_B="", ATTR_C="") + TOP_SUBS
A_LIBS = HEAD + SUBS.format(ATTR_A=', attributes={"path": "liba.SubA"}', ATTR_B=', attributes={"path": "libb.SubB"}',
                            ATTR_C=', attributes={"path": "libc.SubC"}') + TOP_SUBS

A_INLINE = HEAD + '''
class Inv(cohdl.Entity):
    a = Port.input(Bit)
    o = Port.output(Bit)

    def architecture(self):
        @std.concurrent
        def logic():
            self.o <<= ~self.a

class E(cohdl.Entity):
    a = Port.input(Bit)
    o = Port.output(Bit)

    def architecture(self):
        @std.concurrent
        def logic():
            Inv(a=self.a, o=self.o)
'''

A_WAITFOR = HEAD + '''
class E(cohdl.Entity):
    clk = Port.input(Bit)
    a = Port.input(Bit)
    o = Port.output(Bit, default=Null)

    def architecture(self):
        @std.sequential(std.Clock(self.clk, frequency=std.MHz(2)))
        async def proc():
            await self.a
            self.o <<= True
            await std.wait_for(std.us(3))
            self.o <<= False
'''

A_TYPES = HEAD + '''
class E(cohdl.Entity):
    clk = Port.input(Bit)
    a = Port.input(BitVector[8])
    s = Port.input(Signed[5])
    o = Port.output(Unsigned[9], default=Null)
    q = Port.output(Signed[7], default=Null)

    def architecture(self):
        mem = Signal[cohdl.Array[BitVector[8], 4]](name="mem")
        idx = Signal[Unsigned[2]](0, name="idx")

        @std.sequential(std.Clock(self.clk))
        def proc():
            mem[idx] <<= self.a
            idx.next = idx + 1
            if idx == 3:
                self.o <<= mem[0].unsigned.resize(9)
            else:
                self.q <<= self.s.resize(7)
'''

# ---------------------------------------------------------------------------------------------------
# rejected designs, one per crash point class
# ---------------------------------------------------------------------------------------------------
R_ARCH = HEAD + '''
class E(cohdl.Entity):
    clk = Port.input(Bit)
    a = Port.input(Bit)
    o = Port.output(Bit, default=Null)

    def architecture(self):
        @std.concurrent
        def logic():
            self.o <<= self.a

        assert self.a is None, "user check in architecture fails"

        @std.sequential(std.Clock(self.clk))
        def proc():
            pass
'''

R_ARCH_PFX = HEAD + '''
class E(cohdl.Entity):
    a = Port.input(Bit)
    o = Port.output(Bit)

    def architecture(self):
        with std.prefix("archfail"):
            s = std.Signal[Bit](name=std.name("x"))
            raise AssertionError("user error inside a prefix scope of the architecture")
'''

R_ARCH_SUB = HEAD + '''
class Sub(cohdl.Entity):
    a = Port.input(Bit)
    o = Port.output(Bit)

    def architecture(self):
        @std.concurrent
        def logic():
            self.o <<= self.a

class E(cohdl.Entity):
    a = Port.input(Bit)
    o = Port.output(Bit)

    def architecture(self):
        Sub(a=self.a)
'''

R_TRACE_SEQ = HEAD + '''
class E(cohdl.Entity):
    clk = Port.input(Bit)
    a = Port.input(Bit)
    o = Port.output(Bit, default=Null)

    def architecture(self):
        @std.sequential(std.Clock(self.clk, frequency=std.MHz(7)))
        def proc():
            self.o <<= self.a.nonexistent
'''

R_TRACE_CONC = HEAD + '''
class E(cohdl.Entity):
    a = Port.input(Bit)
    o = Port.output(Bit)

    def architecture(self):
        @std.concurrent
        def logic():
            self.o <<= self.a.nonexistent
'''

R_TRACE_PFX = HEAD + '''
class E(cohdl.Entity):
    a = Port.input(Bit)
    o = Port.output(Bit)

    def architecture(self):
        @std.concurrent
        def logic():
            with std.prefix("stale"):
                self.o <<= self.a.nonexistent
'''

R_TRACE_PFX_ARCH = HEAD + '''
class E(cohdl.Entity):
    a = Port.input(Bit)
    o = Port.output(Bit)

    def architecture(self):
        with std.prefix("outer"):
            @std.concurrent
            def logic():
                self.o <<= self.a.nonexistent
'''

R_TRACE_ALWAYS = HEAD + '''
class E(cohdl.Entity):
    clk = Port.input(Bit)
    a = Port.input(Bit)
    o = Port.output(Bit, default=Null)

    def architecture(self):
        @cohdl.sequential_context
        def proc():
            if cohdl.rising_edge(self.clk):
                x = cohdl.always(self.a.nonexistent)
                self.o <<= x
'''

R_TRACE_CALL = HEAD + '''
def inner(x):
    return x.nonexistent

def outer(x):
    y = inner(x)
    return y

class E(cohdl.Entity):
    a = Port.input(Bit)
    o = Port.output(Bit)

    def architecture(self):
        @std.concurrent
        def logic():
            self.o <<= outer(self.a)
'''

R_TRACE_ASSIGN = HEAD + '''
class E(cohdl.Entity):
    a = Port.input(BitVector[4])
    o = Port.output(Bit)

    def architecture(self):
        @std.concurrent
        def logic():
            self.o <<= self.a
'''

R_TRACE_HANDLER = HEAD + '''
class E(cohdl.Entity):
    a = Port.input(BitVector[4])
    o = Port.output(BitVector[4])

    def architecture(self):
        arr = std.Array[BitVector[4], 2]()

        @std.concurrent
        def logic():
            self.o <<= arr.get_elem(7)
'''

R_TRACE_INLINE = HEAD + '''
class Inv(cohdl.Entity):
    a = Port.input(Bit)
    o = Port.output(Bit)

    def architecture(self):
        @std.concurrent
        def logic():
            self.o <<= self.a.nonexistent

class E(cohdl.Entity):
    a = Port.input(Bit)
    o = Port.output(Bit)

    def architecture(self):
        @std.concurrent
        def logic():
            Inv(a=self.a, o=self.o)
'''

# must be rejected in every history: no std.SequentialContext is active, so wait_for cannot infer a clock
R_TRACE_NOCTX = HEAD + '''
class E(cohdl.Entity):
    clk = Port.input(Bit)
    a = Port.input(Bit)
    o = Port.output(Bit, default=Null)

    def architecture(self):
        async def body():
            self.o <<= True
            await std.wait_for(std.us(3))
            self.o <<= False

        coro = body()

        @cohdl.sequential_context
        def proc():
            if cohdl.rising_edge(self.clk):
                cohdl.coroutine_step(coro)
'''

R_IR_CONTINUE = HEAD + '''
class E(cohdl.Entity):
    clk = Port.input(Bit)
    a = Port.input(Bit)
    o = Port.output(Bit, default=Null)

    def architecture(self):
        @std.sequential(std.Clock(self.clk))
        async def proc():
            self.o <<= True
            while True:
                if self.a:
                    continue
                await true
'''

R_IR_CALL = HEAD + '''
async def helper(a):
    while True:
        if a:
            continue
        await true

class E(cohdl.Entity):
    clk = Port.input(Bit)
    a = Port.input(Bit)
    o = Port.output(Bit, default=Null)

    def architecture(self):
        @std.sequential(std.Clock(self.clk))
        async def proc():
            self.o <<= True
            await helper(self.a)
            self.o <<= False
'''

R_USAGE_DRIVERS = HEAD + '''
class E(cohdl.Entity):
    clk = Port.input(Bit)
    a = Port.input(Bit)
    o = Port.output(Bit, default=Null)

    def architecture(self):
        @std.sequential(std.Clock(self.clk))
        def p1():
            self.o <<= self.a

        @std.sequential(std.Clock(self.clk))
        def p2():
            self.o <<= ~self.a
'''

R_USAGE_INPUT = HEAD + '''
class E(cohdl.Entity):
    a = Port.input(Bit)
    o = Port.output(Bit)

    def architecture(self):
        @std.concurrent
        def logic():
            self.a <<= self.o
'''

R_BACKEND = HEAD + '''
class E(cohdl.Entity):
    a = Port.input(Bit)
    o = Port.output(Bit)

    def architecture(self):
        s = Signal[Bit](name="t")
        t = Variable[Bit](name="v")

        @std.concurrent
        def logic():
            t.value = self.a
            self.o <<= t
'''


# ---------------------------------------------------------------------------------------------------
# per-class / per-entity state: designs whose entity CLASS is configured by module-level flags that a history
# toggles between compilations (pool key `name@K=V,..` = same module, same class object, `configure(K=V,..)` called
# before the compilation; `name` alone = `configure()` = defaults)
# ---------------------------------------------------------------------------------------------------
DYN = HEAD + '''
DEBUG = False
LANES = 2
FAIL = ""

def configure(**kw):
    g = globals()
    g.update(DEBUG=False, LANES=2, FAIL="")
    g.update(kw)

class E(cohdl.Entity):
    clk = Port.input(Bit)
    d = Port.input(Bit)
    q = Port.output(Bit, default=Null)

    def architecture(self):
        lanes = []
        for nr in range(LANES):
            inp = std.add_entity_port(self, Port.input(BitVector[4], name=f"lane_in_{nr}"))
            out = std.add_entity_port(self, Port.output(BitVector[4], name=f"lane_out_{nr}"))
            lanes.append((inp, out))
        dbg = None
        if DEBUG:
            dbg = std.add_entity_port(self, Port.output(Bit, name="dbg"))
        if FAIL == "arch":
            raise AssertionError("user check fails after the dynamic ports were added")
        fail_trace = FAIL == "trace"

        @std.sequential(std.Clock(self.clk))
        def proc():
            for inp, out in lanes:
                out <<= ~inp
            self.q <<= self.d
            if dbg is not None:
                dbg.next = self.d
            if fail_trace:
                self.q <<= self.d.nonexistent
'''

ATTR = HEAD + '''
def configure(ARCH=None, PATH=None, SUBARCH=None):
    for info, key, val in ((E._cohdl_info, "arch_name", ARCH), (Sub._cohdl_info, "path", PATH), (Sub._cohdl_info, "arch_name", SUBARCH)):
        if val is None:
            info.attributes.pop(key, None)
        else:
            info.attributes[key] = val

class Sub(cohdl.Entity):
    a = Port.input(Bit)
    o = Port.output(Bit)

    def architecture(self):
        @std.concurrent
        def logic():
            self.o <<= ~self.a

class E(cohdl.Entity, attributes={"comment": "top"}):
    a = Port.input(Bit)
    o = Port.output(Bit)
    p = Port.output(Bit)

    def architecture(self):
        Sub(a=self.a, o=self.o)
        Sub(a=self.o, o=self.p)
'''

# a sub-entity with dynamic ports instantiated twice + an inline entity of a class that is also compiled as top
DYN_SUB = HEAD + '''
WIDE = False

def configure(**kw):
    g = globals()
    g.update(WIDE=False)
    g.update(kw)

class Sub(cohdl.Entity):
    a = Port.input(Bit)
    o = Port.output(Bit)

    def architecture(self):
        if WIDE:
            extra = std.add_entity_port(self, Port.output(Bit, name="extra"))
        else:
            extra = None

        @std.concurrent
        def logic():
            self.o <<= ~self.a
            if extra is not None:
                extra.next = self.a

class E(cohdl.Entity):
    a = Port.input(Bit)
    o = Port.output(Bit)
    p = Port.output(Bit)

    def architecture(self):
        x = Signal[Bit](name="x")
        if WIDE:
            Sub(a=self.a, o=self.o, extra=x)
        else:
            Sub(a=self.a, o=self.o)

        @std.concurrent
        def logic():
            Sub(a=self.o, o=self.p, **({"extra": Signal[Bit](name="y")} if WIDE else {}))
'''

_DYN_PORTS2 = "A:lane_in_0 A:lane_out_0 A:lane_in_1 A:lane_out_1"
_DYN_PORTS3 = _DYN_PORTS2 + " A:lane_in_2 A:lane_out_2"

A_ENUM = '''
import cohdl
from cohdl import std, Bit, Port, Signal, enum

class Phase(enum.Enum):
    idle = enum.auto()
    run = enum.auto()

class E(cohdl.Entity):
    clk = Port.input(Bit)
    go = Port.input(Bit)
    active = Port.output(Bit, default=False)

    def architecture(self):
        phase = Signal[Phase](Phase.idle, name="phase")

        @std.sequential(std.Clock(self.clk))
        def proc():
            if self.go:
                phase.next = Phase.run
                self.active <<= True
            else:
                phase.next = Phase.idle
                self.active <<= False
'''

# names given to the compiler option `additional_reserved_names` by the option steps `name#res`: names that OTHER pool
# designs use for ports, signals, processes, entities, enumerators
RESERVED_OPTION = ["o", "a", "b", "clk", "sig", "foo", "s", "proc", "logic", "mem", "idx", "stage", "inner", "E", "SubA",
                   "x", "idle", "run", "phase", "q", "d", "p", "dbg", "active", "go"]

# ---------------------------------------------------------------------------------------------------
# ORDER-SENSITIVE designs: one emitted statement (or port / declaration) per element of every kind of container the
# tracer or the library builds from user data, so that any change of an iteration order changes the bytes:
# **kwargs iterated and forwarded (some parameters bound by keyword, several surplus keywords), std.Record construction
# with keywords through a qualifier, dict literal / comprehension / keys() / values() / items(), set and frozenset of
# int, sorted set of str, class __dict__ / vars(), std.add_entity_port loop, std.select dict branches, enum
# iteration, entity instantiation with many keyword ports (architecture level and inline).
# (an UNSORTED set of str iterated by the design itself is not in the pool: its order is hash-seed dependent by the
#  semantics of Python, i.e. such a design is not a function of its text.)
# ---------------------------------------------------------------------------------------------------
O_KWARGS = '''from __future__ import annotations
import cohdl
from cohdl import std, Bit, BitVector, Unsigned, Signed, Port, Signal, Variable, Null, Full, true, false, enum

def route(*, gate, **lanes):
    for name, (target, source) in lanes.items():
        if gate:
            target <<= source
        else:
            target <<= std.zeros(len(source))

def fwd(first, *, gate, **rest):
    route(gate=gate, **rest)

class E(cohdl.Entity):
    clk = Port.input(Bit)
    en = Port.input(Bit)
    north = Port.input(BitVector[4])
    east = Port.input(BitVector[4])
    south = Port.input(BitVector[4])
    west = Port.input(BitVector[4])
    out_n = Port.output(BitVector[4])
    out_e = Port.output(BitVector[4])
    out_s = Port.output(BitVector[4])
    out_w = Port.output(BitVector[4])
    f_n = Port.output(BitVector[4])
    f_e = Port.output(BitVector[4])
    f_s = Port.output(BitVector[4])

    def architecture(self):
        @std.sequential(std.Clock(self.clk))
        def proc_routes():
            route(gate=self.en, north=(self.out_n, self.north), east=(self.out_e, self.east),
                  south=(self.out_s, self.south), west=(self.out_w, self.west))

        @std.sequential(std.Clock(self.clk))
        def proc_fwd():
            fwd(0, gate=self.en, zulu=(self.f_n, self.north), alpha=(self.f_e, self.east), mike=(self.f_s, self.south))
'''

O_RECORD = '''from __future__ import annotations
import cohdl
from cohdl import std, Bit, BitVector, Unsigned, Signed, Port, Signal, Variable, Null, Full, true, false, enum

class Pixel(std.Record):
    red: BitVector[4]
    green: BitVector[4]
    blue: BitVector[4]
    alpha: BitVector[4]

class E(cohdl.Entity):
    clk = Port.input(Bit)
    a = Port.input(BitVector[4])
    b = Port.input(BitVector[4])
    c = Port.input(BitVector[4])
    d = Port.input(BitVector[4])
    pr = Port.output(BitVector[4])
    pg = Port.output(BitVector[4])
    pb = Port.output(BitVector[4])
    pa = Port.output(BitVector[4])
    sr = Port.output(BitVector[4])
    sa = Port.output(BitVector[4])

    def architecture(self):
        sig = std.Signal[Pixel](red=Null, green=Null, blue=Null, alpha=Null)

        @std.sequential(std.Clock(self.clk))
        def proc_pixel():
            pixel = std.Variable[Pixel](red=self.a, green=self.b, blue=self.c, alpha=self.d)
            self.pr <<= pixel.red
            self.pg <<= pixel.green
            self.pb <<= pixel.blue
            self.pa <<= pixel.alpha
            sig.next = pixel
            self.sr <<= sig.red
            self.sa <<= sig.alpha
'''

O_DICTSET = '''from __future__ import annotations
import cohdl
from cohdl import std, Bit, BitVector, Unsigned, Signed, Port, Signal, Variable, Null, Full, true, false, enum

class E(cohdl.Entity):
    clk = Port.input(Bit)
    a = Port.input(BitVector[4])
    b = Port.input(BitVector[4])
    c = Port.input(BitVector[4])
    o1 = Port.output(BitVector[4])
    o2 = Port.output(BitVector[4])
    o3 = Port.output(BitVector[4])
    p1 = Port.output(BitVector[4])
    p2 = Port.output(BitVector[4])
    p3 = Port.output(BitVector[4])
    q = Port.output(Unsigned[8], default=Null)
    r = Port.output(Unsigned[8], default=Null)

    def architecture(self):
        @std.sequential(std.Clock(self.clk))
        def proc_dict():
            table = {"zeta": (self.o1, self.a), "alpha": (self.o2, self.b), "mid": (self.o3, self.c)}
            for key in table:
                tgt, src = table[key]
                tgt <<= src
            for tgt, src in table.values():
                tgt <<= ~src
            for key, (tgt, src) in table.items():
                tgt <<= src

        @std.sequential(std.Clock(self.clk))
        def proc_comp():
            comp = {name: pair for name, pair in [("yy", (self.p1, self.a)), ("bb", (self.p2, self.b)), ("mm", (self.p3, self.c))]}
            for name in comp.keys():
                comp[name][0].next = comp[name][1]

        ints = {17, 3, 250, 64, 5}
        frozen = frozenset([9, 1, 33])
        names = sorted({"tango", "alpha", "kilo", "echo"})

        @std.sequential(std.Clock(self.clk))
        def proc_set():
            acc = Variable[Unsigned[8]](0)
            for n in ints:
                acc.value = acc + n
            self.q <<= acc
            acc2 = Variable[Unsigned[8]](0)
            for n in frozen:
                acc2.value = acc2 + n
            for n in names:
                acc2.value = acc2 + len(n)
            self.r <<= acc2
'''

O_CLASSDICT = '''from __future__ import annotations
import cohdl
from cohdl import std, Bit, BitVector, Unsigned, Signed, Port, Signal, Variable, Null, Full, true, false, enum

class Cfg:
    zulu = 3
    alpha = 5
    mike = 9
    echo = 1

class E(cohdl.Entity):
    clk = Port.input(Bit)
    a = Port.input(Unsigned[8])
    o = Port.output(Unsigned[8], default=Null)

    def architecture(self):
        consts = {k: v for k, v in vars(Cfg).items() if not k.startswith("_")}
        ports = {}
        for k, v in Cfg.__dict__.items():
            if not k.startswith("_"):
                ports[k] = std.add_entity_port(self, Port.output(Unsigned[8], name="c_" + k))

        @std.sequential(std.Clock(self.clk))
        def proc():
            acc = Variable[Unsigned[8]](self.a)
            for k, v in consts.items():
                acc.value = acc + v
                ports[k].next = acc
            self.o <<= acc
'''

O_SELECT = '''from __future__ import annotations
import cohdl
from cohdl import std, Bit, BitVector, Unsigned, Signed, Port, Signal, Variable, Null, Full, true, false, enum

class Phase(enum.Enum):
    idle = enum.auto()
    load = enum.auto()
    run = enum.auto()
    done = enum.auto()

class E(cohdl.Entity):
    clk = Port.input(Bit)
    sel = Port.input(Unsigned[2])
    a = Port.input(BitVector[4])
    b = Port.input(BitVector[4])
    c = Port.input(BitVector[4])
    o = Port.output(BitVector[4])
    cnt = Port.output(Unsigned[4], default=Null)

    def architecture(self):
        phase = Signal[Phase](Phase.idle, name="phase")

        @std.concurrent
        def logic():
            self.o <<= std.select(self.sel, {2: self.c, 0: self.a, 1: self.b}, default=std.zeros(4))

        @std.sequential(std.Clock(self.clk))
        def proc():
            n = Variable[Unsigned[4]](0)
            for member in Phase:
                if phase == member:
                    n.value = n + 1
            self.cnt <<= n
            phase.next = Phase.run
'''

O_MANYPORTS = '''from __future__ import annotations
import cohdl
from cohdl import std, Bit, BitVector, Unsigned, Signed, Port, Signal, Variable, Null, Full, true, false, enum

class Sub(cohdl.Entity):
    zulu = Port.input(Bit)
    alpha = Port.input(Bit)
    mike = Port.input(Bit)
    echo = Port.output(Bit)
    bravo = Port.output(Bit)
    xray = Port.output(Bit)

    def architecture(self):
        @std.concurrent
        def logic():
            self.echo <<= self.zulu
            self.bravo <<= self.alpha
            self.xray <<= self.mike

class E(cohdl.Entity):
    a = Port.input(Bit)
    b = Port.input(Bit)
    c = Port.input(Bit)
    x = Port.output(Bit)
    y = Port.output(Bit)
    z = Port.output(Bit)
    x2 = Port.output(Bit)
    y2 = Port.output(Bit)
    z2 = Port.output(Bit)

    def architecture(self):
        Sub(xray=self.z, mike=self.c, zulu=self.a, echo=self.x, alpha=self.b, bravo=self.y)

        @std.concurrent
        def logic():
            Sub(bravo=self.y2, zulu=self.a, xray=self.z2, alpha=self.b, echo=self.x2, mike=self.c)
'''


# ---------------------------------------------------------------------------------------------------
# contexts registered through the CORE API (`cohdl.concurrent_context` / `cohdl.sequential_context`) from callables that
# are created per elaboration and die with it, so that their addresses (`id()`) are recycled by later compilations:
# bound methods of short-lived helper objects, callable helper objects (`__call__`), closures returned by a factory,
# nested functions, lambdas.  `VARIANT` permutes which operation drives which output (structurally similar designs
# with different logic), `BAD` makes two contexts drive one port (rejected in the usage check).  BM works on Bit
# ports, BMV on BitVector[4] ports with the same helper classes (cross-design reuse).
# ---------------------------------------------------------------------------------------------------
_BM = HEAD + '''
VARIANT = 0
BAD = False

def configure(**kw):
    g = globals()
    g.update(VARIANT=0, BAD=False)
    g.update(kw)

class Gate:
    def __init__(self, a, b, out):
        self.a = a
        self.b = b
        self.out = out

    def comb_and(self):
        self.out <<= self.a & self.b

    def comb_or(self):
        self.out <<= self.a | self.b

    def comb_xor(self):
        self.out <<= self.a ^ self.b

class Stage:
    def __init__(self, clk, inp, out):
        self.clk = clk
        self.inp = inp
        self.out = out

    def reg(self):
        if cohdl.rising_edge(self.clk):
            self.out <<= self.inp

    def reg_inv(self):
        if cohdl.rising_edge(self.clk):
            self.out <<= ~self.inp

class Inverter:
    def __init__(self, inp, out):
        self.inp = inp
        self.out = out

    def __call__(self):
        self.out <<= ~self.inp

def make_copy(inp, out):
    def copy_logic():
        nonlocal out
        out <<= inp
    return copy_logic

class E(cohdl.Entity):
    clk = Port.input(Bit)
    a = Port.input(T)
    b = Port.input(T)
    o0 = Port.output(T)
    o1 = Port.output(T)
    o2 = Port.output(T)
    o3 = Port.output(T)
    o4 = Port.output(T)
    o5 = Port.output(T)
    o6 = Port.output(T)
    o7 = Port.output(T)

    def architecture(self):
        outs = [self.o0, self.o1, self.o2, self.o3, self.o4, self.o5, self.o6, self.o7]
        outs = outs[VARIANT:] + outs[:VARIANT]
        cohdl.concurrent_context(Gate(self.a, self.b, outs[0]).comb_and)
        cohdl.concurrent_context(Gate(self.a, self.b, outs[1]).comb_or)
        cohdl.concurrent_context(Gate(self.b, self.a, outs[2]).comb_xor)
        cohdl.sequential_context(Stage(self.clk, self.a, outs[3]).reg)
        cohdl.sequential_context(Stage(self.clk, self.b, outs[4]).reg_inv)
        cohdl.concurrent_context(Inverter(self.a, outs[5]), name="inverter",
                                 source_location=cohdl._core._context.SourceLocation.from_function(Inverter.__call__))
        cohdl.concurrent_context(make_copy(self.b, outs[6]))

        # (no closure may capture `self`: a cached definition keeps its function, the function its closure cells and
        #  the template instance would keep every context - and every bound method - of this elaboration alive)
        in_a, in_b, last = self.a, self.b, outs[7]

        def nested():
            last.next = in_a & ~in_b

        cohdl.concurrent_context(nested if not BAD else make_copy(self.a, outs[6]))
        if BAD:
            cohdl.concurrent_context(nested)
'''
BM = _BM.replace("(T)", "(Bit)")
BMV = _BM.replace("(T)", "(BitVector[4])")
_BM_SCRIPT = "<conv <arch:E F:30 F:31 F:32 > <blk <apply > <apply > <apply > <apply > <apply > <apply > <apply > <apply > > > "

def _front(arch, trace):
    return f"<conv <arch:E {arch} > <blk {trace} > >"

IR = "<irapply <ircall {} > >"
SEQ = "<ctx:{} <apply <ret > > >"          # std.sequential(Clock): traced body inside _enter_context/_exit_context

POOL = {
    # name: (source, expect, phase, script)
    "a_comb": (A_COMB, "ok", None, _front("F:1", "<apply > I") + " " + IR.format("O:1")),
    "a_seq": (A_SEQ, "ok", None, _front("F:2", SEQ.format(0)) + " " + IR.format("<ircall > O:2")),
    "a_coro": (A_CORO, "ok", None, _front("F:3", SEQ.format(0)) + " " + IR.format("<sm O:3 >")),
    "a_coro_loop": (A_CORO_LOOP, "ok", None, _front("F:4", SEQ.format(0)) + " " + IR.format("<sm <ircall <loop > > O:4 >")),
    "a_pfx_trace": (A_PFX_TRACE, "ok", None, _front("F:5", "<ctx:0 <pfx:foo N:sig > <pfx:foo N:sig > >") + " " + IR.format("O:5")),
    "a_pfx_arch": (A_PFX_ARCH, "ok", None, "<conv <arch:E <pfx:blk N:stage > <pfx:blk > > <blk <pfx:blk <ctx:0 N:inner > > <pfx:blk > > > " + IR.format("O:6")),
    "a_always": (A_ALWAYS, "ok", None, _front("F:7", "<ctx:0 <always > <apply > >") + " " + IR.format("O:7")),
    "a_sub": (A_SUB, "ok", None, "<conv <arch:E <arch:SubA > <arch:SubB > <arch:SubC > > <blk <blk > <blk > <blk > > > " + IR.format("O:8") + " M:1:1,2,3"),
    "a_libs": (A_LIBS, "ok", None, "<conv <arch:E <arch:SubA > <arch:SubB > <arch:SubC > > <blk <blk > <blk > <blk > > > " + IR.format("O:9") + " L:11,12,13"),
    "a_inline": (A_INLINE, "ok", None, "<conv <arch:E > <blk <apply <arch:Inv > > > <blk <blk > > > " + IR.format("O:10")),
    "a_waitfor": (A_WAITFOR, "ok", None, _front("F:11", "<ctx:2 U <apply > >") + " " + IR.format("<sm O:11 >")),
    "a_enum": (A_ENUM, "ok", None, _front("F:14", SEQ.format(0)) + " " + IR.format("O:19") + " <scope D:idle D:run D:phase >"),
    "o_kwargs": (O_KWARGS, "ok", None, _front("F:20", SEQ.format(0) + " " + SEQ.format(0)) + " " + IR.format("O:20")),
    "o_record": (O_RECORD, "ok", None, _front("F:21", SEQ.format(0)) + " " + IR.format("O:21")),
    "o_dictset": (O_DICTSET, "ok", None, _front("F:22", SEQ.format(0) + " " + SEQ.format(0) + " " + SEQ.format(0)) + " " + IR.format("O:22")),
    "o_classdict": (O_CLASSDICT, "ok", None, _front("A:c_zulu A:c_alpha A:c_mike A:c_echo F:23", SEQ.format(0)) + " " + IR.format("O:23")),
    "o_select": (O_SELECT, "ok", None, _front("F:24", "<apply > " + SEQ.format(0)) + " " + IR.format("O:24")),
    "o_manyports": (O_MANYPORTS, "ok", None, "<conv <arch:E <arch:Sub > > <blk <apply <arch:Sub > > <blk > > <blk <blk > > > " + IR.format("O:25")),
    "bm": (BM, "ok", None, _BM_SCRIPT + IR.format("O:30")),
    "bm@VARIANT=1": (BM, "ok", None, _BM_SCRIPT + IR.format("O:30")),
    "bm@VARIANT=3": (BM, "ok", None, _BM_SCRIPT + IR.format("O:30")),
    "bmv": (BMV, "ok", None, _BM_SCRIPT + IR.format("O:31")),
    "bmv@VARIANT=2": (BMV, "ok", None, _BM_SCRIPT + IR.format("O:31")),
    "bmv@VARIANT=5": (BMV, "ok", None, _BM_SCRIPT + IR.format("O:31")),
    "a_types": (A_TYPES, "ok", None, _front("T:8 T:5 T:9 T:7 T:2", SEQ.format(0)) + " " + IR.format("O:12")),
    "dyn": (DYN, "ok", None, _front(_DYN_PORTS2 + " F:13", SEQ.format(0)) + " " + IR.format("O:13")),
    "dyn@LANES=3": (DYN, "ok", None, _front(_DYN_PORTS3 + " F:13", SEQ.format(0)) + " " + IR.format("O:13")),
    "dyn@LANES=0": (DYN, "ok", None, _front("F:13", SEQ.format(0)) + " " + IR.format("O:13")),
    "dyn@LANES=0,DEBUG=True": (DYN, "ok", None, _front("A:dbg F:13", SEQ.format(0)) + " " + IR.format("O:13")),
    "dyn@DEBUG=True": (DYN, "ok", None, _front(_DYN_PORTS2 + " A:dbg F:13", SEQ.format(0)) + " " + IR.format("O:13")),
    "attr": (ATTR, "ok", None, "<conv <arch:E <arch:Sub > <arch:Sub > > <blk <blk > > > " + IR.format("O:14")),
    "attr@ARCH='rtl'": (ATTR, "ok", None, "<conv <arch:E <arch:Sub > <arch:Sub > > <blk <blk > > > " + IR.format("O:15")),
    "attr@PATH='extlib.Sub',SUBARCH='impl'": (ATTR, "ok", None, "<conv <arch:E <arch:Sub > <arch:Sub > > <blk <blk > > > " + IR.format("O:16")),
    "dynsub": (DYN_SUB, "ok", None, "<conv <arch:E <arch:Sub > > <blk <apply <arch:Sub > > <blk > > <blk <blk > > > " + IR.format("O:17")),
    "dynsub@WIDE=True": (DYN_SUB, "ok", None, "<conv <arch:E <arch:Sub A:extra > > <blk <apply <arch:Sub > > <blk > > <blk <blk > > > " + IR.format("O:18")),
    "dyn@FAIL='arch'": (DYN, "reject", "arch", "<conv <arch:E " + _DYN_PORTS2 + " !"),
    "dyn@FAIL='trace',DEBUG=True": (DYN, "reject", "trace", "<conv <arch:E " + _DYN_PORTS2 + " A:dbg > <blk <ctx:0 <apply !"),
    "bm@BAD=True": (BM, "reject", "usage", _BM_SCRIPT + IR.format("") + " !"),
    "bmv@BAD=True,VARIANT=2": (BMV, "reject", "usage", _BM_SCRIPT + IR.format("") + " !"),
    "r_arch": (R_ARCH, "reject", "arch", "<conv <arch:E F:1 !"),
    "r_arch_pfx": (R_ARCH_PFX, "reject", "arch", "<conv <arch:E <pfx:archfail N:x > !"),
    "r_arch_sub": (R_ARCH_SUB, "reject", "arch", "<conv <arch:E <arch:Sub > !"),
    "r_trace_seq": (R_TRACE_SEQ, "reject", "trace", "<conv <arch:E > <blk <ctx:7 <apply !"),
    "r_trace_conc": (R_TRACE_CONC, "reject", "trace", "<conv <arch:E > <blk <apply !"),
    "r_trace_pfx": (R_TRACE_PFX, "reject", "trace", "<conv <arch:E > <blk <pfx:stale <apply !"),
    "r_trace_pfx_arch": (R_TRACE_PFX_ARCH, "reject", "trace", "<conv <arch:E <pfx:outer > > <blk <pfx:outer <apply !"),
    "r_trace_always": (R_TRACE_ALWAYS, "reject", "trace", "<conv <arch:E > <blk <apply <always !"),
    "r_trace_call": (R_TRACE_CALL, "reject", "trace", "<conv <arch:E > <blk <apply <ret <apply <ret <apply !"),
    "r_trace_assign": (R_TRACE_ASSIGN, "reject", "trace", "<conv <arch:E > <blk <apply <ret <apply !"),
    "r_trace_handler": (R_TRACE_HANDLER, "reject", "trace", "<conv <arch:E > <blk <apply <hdl <apply !"),
    "r_trace_inline": (R_TRACE_INLINE, "reject", "trace", "<conv <arch:E > <blk <apply <arch:Inv > > > <blk <blk <apply !"),
    "r_trace_noctx": (R_TRACE_NOCTX, "reject", "trace", "<conv <arch:E > <blk <apply U > > >"),
    "r_ir_continue": (R_IR_CONTINUE, "reject", "irgen", _front("F:3", SEQ.format(0)) + " <irapply <ircall <sm <irapply <loop > !"),
    "r_ir_call": (R_IR_CALL, "reject", "irgen", _front("F:3", SEQ.format(0)) + " <irapply <ircall <sm <irapply <ircall <irapply <loop > !"),
    "r_usage_drivers": (R_USAGE_DRIVERS, "reject", "usage", _front("F:2", SEQ.format(0) + " " + SEQ.format(0)) + " " + IR.format("") + " " + IR.format("") + " !"),
    "r_usage_input": (R_USAGE_INPUT, "reject", "usage", _front("F:1", "<apply >") + " " + IR.format("") + " !"),
    "r_usage_var": (R_BACKEND, "reject", "usage", _front("F:1", "<apply >") + " " + IR.format("") + " !"),
}


# ---------------------------------------------------------------------------------------------------
# option steps: `name#opt` = the same design compiled through another entry point / with other compiler options
#   res  std.VhdlCompiler.to_string(E, additional_reserved_names=RESERVED_OPTION)
#   lib  str(std.VhdlCompiler.to_vhdl_library(E).write())        ir   std.VhdlCompiler.to_ir(E)
#   dir  std.VhdlCompiler.to_dir(E, <tmp>, mkdir=True) (file contents)
#   tb0 / tb1  cohdl.use_pretty_traceback(False / True) BEFORE the compilation (a setting that persists)
# the model script of an option step = script of the design (+ the module scope with the option's names for `res`)
# ---------------------------------------------------------------------------------------------------
# bases whose configurations are exercised by long "churn" histories (many compilations in one interpreter, gc between)
CHURN = ["bm", "bm@VARIANT=1", "bm@VARIANT=3", "bm@BAD=True", "bmv", "bmv@VARIANT=2", "bmv@VARIANT=5", "bmv@BAD=True,VARIANT=2"]

OPTION_STEPS = ["a_comb#res", "a_pfx_trace#res", "a_sub#res", "a_enum#res", "r_trace_seq#res", "r_usage_drivers#res",
                "a_seq#ir", "a_coro#ir", "r_ir_continue#ir", "a_sub#dir", "a_coro#lib", "a_comb#tb0", "r_trace_call#tb0",
                "a_seq#tb1"]
for _n in OPTION_STEPS:
    _b, _o = _n.split("#")
    _src, _exp, _ph, _scr = POOL[_b]
    if _o == "res" and _exp == "ok":
        _scr = _scr.replace(" <scope ", " <scope:R ") if " <scope " in _scr else _scr + " <scope:R >"
    POOL[_n] = (_src, _exp, _ph, _scr)
