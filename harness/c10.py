"""C10 - the compile-time Python subset evaluates exactly like CPython.

Proved cores (lean/CohdlVerif/Props/C10.lean): argument binding (`bind_args` = CPython's binding for all
signatures and call shapes), starred targets, and/or truth value, comparison chains, operator dispatch.

Ties of this file
  (a) SPEC validation:   Lean `cpyBind` / `pyBoolOp` / `pyChain` / `cpyBinOp` / `cpyCmp`  vs  real CPython 3.12
                         (`inspect.signature(f).bind` + an actual call; real classes with logging special methods)
  (b) MIRROR tie:        Lean `bindModel` vs the real `FunctionDefinition.bind_args` called directly;
                         Lean `splitTarget` / `foldBoolOp` / `foldCompareChain` / `dispatchBinOp` / `dispatchCmp`
                         vs the tracer run on one small traced program per case
  (c) GLUE differential: whole generated programs over the supported constant-evaluable constructs, evaluated once
                         by CPython and once by the tracer inside a design (values captured by a pyeval probe).
                         This is differential correspondence of the glue around the proved cores - NOT a proof.

A value difference, or an accepted call that CPython rejects for binding reasons, is a VIOLATION.
A construct the tracer rejects with an error is allowed by the property.
"""

import ast
import inspect
import itertools
import re

from .common import Ctx, fork_map, load_design_module, import_cohdl, InfraError
from . import lean_io

# ---------------------------------------------------------------------------------------------------
# program template: the traced function `main` computes Python values during compilation; a pyeval
# (intrinsic, executed natively by the tracer) probe records canonicalised values
# ---------------------------------------------------------------------------------------------------

HEAD = '''
import cohdl
from cohdl import Bit, Port
from cohdl import std

RESULT = []
LOG = []


def canon(x, depth=0):
    if depth > 6:
        return "deep"
    if x is None or isinstance(x, (bool, int, float, str)):
        return [type(x).__name__, x]
    if isinstance(x, (tuple, list)):
        return [type(x).__name__] + [canon(e, depth + 1) for e in x]
    if isinstance(x, dict):
        return ["dict"] + [[canon(k, depth + 1), canon(v, depth + 1)] for k, v in x.items()]
    if isinstance(x, slice):
        return ["slice", canon(x.start), canon(x.stop), canon(x.step)]
    if isinstance(x, range):
        return ["range", x.start, x.stop, x.step]
    if isinstance(x, type):
        return ["type", x.__name__]
    if type(x).__module__ == __name__:
        return ["obj", type(x).__name__] + [[k, canon(v, depth + 1)] for k, v in sorted(vars(x).items())]
    if x is NotImplemented:
        return ["NotImplemented"]
    return ["other", type(x).__name__]


@cohdl.pyeval
def record(x):
    RESULT.append(canon(x))


@cohdl.pyeval
def eff(i, v):
    LOG.append("o%d" % i)
    return v


@cohdl.pyeval
def note(s):
    LOG.append(s)


@cohdl.pyeval
def notec(i):
    LOG.append("c%d" % i)


@cohdl.pyeval
def T(x):
    return bool(x)

'''

TAIL = '''

class Probe(cohdl.Entity):
    a = Port.input(Bit)
    o = Port.output(Bit)

    def architecture(self):
        @std.concurrent
        def logic():
            main()
            self.o <<= self.a
'''


def make_program(defs, body):
    body = body if isinstance(body, list) else body.strip("\n").split("\n")
    lines = []
    for st in body:
        for l in st.split("\n"):
            lines.append("    " + l)
    if not lines:
        lines = ["    pass"]
    return HEAD + defs.strip("\n") + "\n\n\ndef main():\n" + "\n".join(lines) + "\n" + TAIL


BINDING_MSG = re.compile(r"positional argument|keyword argument|multiple values|required (positional|keyword)|"
                         r"missing \d+ required|positional-only|unexpected keyword|takes \d+ positional|takes no arg|"
                         r"takes from \d+ to \d+|keywords must be strings|must be a mapping|must be an iterable")


def _prog_task(src):
    """evaluate one program by CPython (native call of main) and by cohdl's tracer (compile of Probe)"""
    import_cohdl()
    from cohdl import std

    mod = load_design_module(src, tag="c10")
    out = {}
    try:
        mod.main()
        out["py"] = ["ok", list(mod.RESULT), list(mod.LOG)]
    except RecursionError:
        out["py"] = ["exc", [], [], "RecursionError", "", False]
    except Exception as e:  # noqa
        binding = isinstance(e, TypeError) and bool(BINDING_MSG.search(str(e)))
        out["py"] = ["exc", list(mod.RESULT), list(mod.LOG), type(e).__name__, str(e)[:160], binding]
    mod.RESULT.clear()
    mod.LOG.clear()
    try:
        std.VhdlCompiler.to_string(mod.Probe)
        out["co"] = ["ok", list(mod.RESULT), list(mod.LOG)]
    except BaseException as e:  # noqa
        out["co"] = ["rej", list(mod.RESULT), list(mod.LOG), type(e).__name__, str(e)[:160]]
    return out


def _prog_task_fresh(src):
    out = _prog_task(src)
    out["ok"] = out["co"][0] == "ok"
    return out


def run_programs(srcs, fresh=False):
    """first pass: many programs per forked interpreter (forks are expensive in this sandbox).  Every result
    that is not plain agreement / a rejection is re-run alone in a fresh fork before it is used, so state
    left behind by an earlier rejected compile cannot cause a report."""
    if not srcs:
        return []
    if fresh:
        res = fork_map(_prog_task_fresh, srcs, fresh=True, batch=1)
    else:
        res = fork_map(_prog_task, srcs, fresh=True, batch=40)
    out = []
    for r in res:
        if r[0] != "ok":
            raise InfraError("program task failed: " + r[1] + "\n" + (r[2] if len(r) > 2 else ""))
        out.append(r[1])
    if not fresh:
        again = [i for i, r in enumerate(out) if verdict(r) in ("diff", "accepted-binding-error")]
        for i, r in zip(again, run_programs([srcs[i] for i in again], fresh=True)):
            out[i] = r
    return out


def confirm(case):
    """re-run one case alone in a fresh fork"""
    return run_programs([make_program(case["defs"], case["body"])], fresh=True)[0]


def verdict(r):
    """classify one program result.
    'same'      both produced the same values
    'rejected'  tracer rejected (allowed)
    'py-exc'    CPython itself raises a non-binding error: outside the property
    'diff'      value difference                                   -> violation
    'accepted-binding-error'  CPython rejects the call for binding reasons, tracer accepts -> violation"""
    py, co = r["py"], r["co"]
    if py[0] == "exc":
        if py[5] and co[0] == "ok":
            return "accepted-binding-error"
        return "py-exc"
    if co[0] != "ok":
        return "rejected"
    return "same" if py[1] == co[1] else "diff"


# ---------------------------------------------------------------------------------------------------
# 1. argument binding: signatures x call shapes
# ---------------------------------------------------------------------------------------------------

SELF_VAL = 7777


def gen_signature(rng):
    """a valid Python signature over the name pool p1..p9 (p0 = self of a method)"""
    names = list(range(1, 10))
    rng.shuffle(names)
    n_po = rng.choice([0, 0, 1, 2])
    n_ar = rng.choice([0, 1, 2, 3])
    n_ko = rng.choice([0, 0, 1, 2])
    po, names = names[:n_po], names[n_po:]
    ar, names = names[:n_ar], names[n_ar:]
    ko, names = names[:n_ko], names[n_ko:]
    va = names.pop() if rng.random() < 0.4 else None
    kw = names.pop() if rng.random() < 0.4 else None
    method = rng.random() < 0.25
    if method:
        if po:
            po = [0] + po
        else:
            ar = [0] + ar
    pos_params = po + ar
    n_def = rng.randint(0, len(pos_params) - (1 if method else 0))
    defaults = {n: 1000 + n for n in pos_params[len(pos_params) - n_def:]} if n_def else {}
    kwdefaults = {n: 2000 + n for n in ko if rng.random() < 0.5}
    return {"po": po, "ar": ar, "va": va, "ko": ko, "kw": kw, "d": defaults, "kd": kwdefaults, "method": method}


def pname(n):
    return "self" if n == 0 else f"p{n}"


def sig_source(sig, fname):
    parts = []
    for n in sig["po"]:
        parts.append(pname(n) + (f"={sig['d'][n]}" if n in sig["d"] else ""))
    if sig["po"]:
        parts.append("/")
    for n in sig["ar"]:
        parts.append(pname(n) + (f"={sig['d'][n]}" if n in sig["d"] else ""))
    if sig["va"] is not None:
        parts.append("*" + pname(sig["va"]))
    elif sig["ko"]:
        parts.append("*")
    for n in sig["ko"]:
        parts.append(pname(n) + (f"={sig['kd'][n]}" if n in sig["kd"] else ""))
    if sig["kw"] is not None:
        parts.append("**" + pname(sig["kw"]))
    order = sig["po"] + sig["ar"] + ([sig["va"]] if sig["va"] is not None else []) + sig["ko"] + \
        ([sig["kw"]] if sig["kw"] is not None else [])
    ret = "(" + "".join(pname(n) + ", " for n in order) + ")"
    return f"def {fname}({', '.join(parts)}):\n    return {ret}\n", order


def gen_call(rng, sig):
    n_pos_params = len(sig["po"]) + len(sig["ar"]) - (1 if sig["method"] else 0)
    mode = rng.random()
    if mode < 0.55:
        n_pos = rng.randint(0, n_pos_params)
    else:
        n_pos = rng.randint(0, n_pos_params + 2)
    pos = [10 * (i + 1) for i in range(n_pos)]
    pool = [n for n in sig["po"] + sig["ar"] + sig["ko"] if n != 0]
    kws = []
    # mostly-valid: give the parameters that still need a value, then perturb
    need = [n for n in (sig["ar"][max(0, n_pos - len([p for p in sig["po"] if p != 0])):] if True else []) if n != 0] + sig["ko"]
    for n in need:
        has_default = n in sig["d"] or n in sig["kd"]
        if rng.random() < (0.45 if has_default else 0.9):
            kws.append(n)
    r = rng.random()
    if r < 0.25 and pool:
        kws.append(rng.choice(pool))          # possibly a duplicate / positional-only / already filled name
    elif r < 0.40:
        kws.append(rng.choice([10, sig["va"] or 10, sig["kw"] or 10]))   # a foreign name / the name of *args / **kwargs
    elif r < 0.50 and kws:
        kws.remove(rng.choice(kws))
    seen, kw = set(), []
    for n in kws:
        if n not in seen:
            seen.add(n)
            kw.append((n, 100 + n))
    rng.shuffle(kw)
    return pos, kw


def lean_list(xs):
    return ",".join(str(x) for x in xs) if xs else "-"


def lean_kw(kvs):
    return ",".join(f"{k}:{v}" for k, v in kvs) if kvs else "-"


def bind_request(op, sig, pos, kw):
    mpos = ([SELF_VAL] if sig["method"] else []) + list(pos)
    return " ".join([op, lean_list(sig["po"]), lean_list(sig["ar"]), "-" if sig["va"] is None else str(sig["va"]),
                     lean_list(sig["ko"]), "-" if sig["kw"] is None else str(sig["kw"]),
                     lean_kw(sorted(sig["d"].items())), lean_kw(sorted(sig["kd"].items())), lean_list(mpos), lean_kw(kw)])


def _num(name):
    return 0 if name == "self" else int(name[1:])


def _fmt_val(x, obj):
    def v(e):
        return SELF_VAL if e is obj else e
    if isinstance(x, tuple):
        return "(" + ",".join(str(v(e)) for e in x) + ")"
    if isinstance(x, dict):
        return "{" + ",".join(f"{_num(k)}:{v(e)}" for k, e in x.items()) + "}"
    return str(v(x))


def _show_env(order, get, obj):
    """the canonical answer format of the Lean driver (showEnv)"""
    parts = [f"{n}={_fmt_val(get(pname(n)), obj)}" for n in order]
    first = _fmt_val(get(pname(order[0])), obj) if order else "-"
    return (" ".join(parts) + " " if parts else "") + "| super=" + first


def _bind_task(item):
    """item = (module source, [(fname, method?, order, [(pos, kw), ...]), ...]).
    For every call: real CPython (actual call + inspect.signature.bind) and the real bind_args."""
    src, funcs = item
    import_cohdl()
    from cohdl._core._collect_ast_and_scope import FunctionDefinition, _Unbound

    mod = load_design_module(src, tag="c10b")
    out = []
    for fname, method, order, calls in funcs:
        if method:
            obj = getattr(mod, "C_" + fname)()
            fn = getattr(obj, fname)
        else:
            obj = object()
            fn = getattr(mod, fname)
        sig = inspect.signature(fn)
        for pos, kw in calls:
            kwd = {pname(k): v for k, v in kw}
            # real CPython, actual call
            try:
                ret = fn(*pos, **kwd)
                env = dict(zip([pname(n) for n in order], ret))
                cpy = _show_env(order, env.__getitem__, obj)
            except TypeError:
                cpy = "reject"
            # real CPython, inspect
            try:
                ba = sig.bind(*pos, **kwd)
                ba.apply_defaults()
                full = dict(ba.arguments)
                if method:
                    full["self"] = obj
                cpy2 = _show_env(order, full.__getitem__, obj)
            except TypeError:
                cpy2 = "reject"
            # real bind_args
            try:
                fd = FunctionDefinition.from_callable(fn)
                inst = fd.bind_args(list(pos), dict(kwd))
                scope = inst.scope()
                impl = _show_env(order, scope.__getitem__, obj)
                sup = inst.super_arg()
                sup = "-" if sup is _Unbound else _fmt_val(sup, obj)
                impl = impl.rsplit("super=", 1)[0] + "super=" + sup
            except (AssertionError, KeyError):
                impl = "reject"
            except Exception as e:  # noqa
                impl = "error:" + type(e).__name__
            out.append((cpy, cpy2, impl))
    return out


def check_binding(ctx: Ctx):
    rng = ctx.rng
    n_sigs = ctx.scale(400, 4000)
    calls_per = ctx.scale(10, 14)
    per_module = 100
    items, meta, reqs_m, reqs_s = [], [], [], []
    sigs = [gen_signature(rng) for _ in range(n_sigs)]
    for m0 in range(0, n_sigs, per_module):
        src, funcs = "", []
        for i, sig in enumerate(sigs[m0:m0 + per_module]):
            fname = f"f{m0 + i}"
            body, order = sig_source(sig, fname)
            if sig["method"]:
                src += f"class C_{fname}:\n" + "".join("    " + l + "\n" for l in body.split("\n") if l) + "\n"
            else:
                src += body + "\n"
            calls = []
            seen = set()
            for _ in range(calls_per):
                pos, kw = gen_call(rng, sig)
                key = (tuple(pos), tuple(kw))
                if key in seen:
                    continue
                seen.add(key)
                calls.append((pos, kw))
                meta.append((sig, body, pos, kw))
                reqs_m.append(bind_request("bind", sig, pos, kw))
                reqs_s.append(bind_request("cpybind", sig, pos, kw))
            funcs.append((fname, sig["method"], order, calls))
        items.append((src, funcs))
    mirror = lean_io.query("C10", reqs_m)
    spec = lean_io.query("C10", reqs_s)
    res = fork_map(_bind_task, items, fresh=True, batch=1)
    real = []
    for r in res:
        if r[0] != "ok":
            raise InfraError("bind task failed: " + r[1] + "\n" + r[2])
        real.extend(r[1])
    assert len(real) == len(meta)
    spec_bad = mirror_bad = viol = 0
    failing = []
    for (sig, body, pos, kw), mo, sp, (cpy, cpy2, impl) in zip(meta, mirror, spec, real):
        strip = lambda s: s.rsplit("| super=", 1)[0]
        shape = ("po" if sig["po"] else "") + ("ar" if sig["ar"] else "") + ("V" if sig["va"] is not None else "") + \
                ("ko" if sig["ko"] else "") + ("K" if sig["kw"] is not None else "") + ("m" if sig["method"] else "")
        ctx.case(key=(body, tuple(pos), tuple(kw)), nontrivial=(len(shape) >= 3 and (bool(kw) or len(pos) > 1)),
                 kind="bind:" + ("reject" if cpy == "reject" else "accept"),
                 sample={"signature": body.split("\n")[0], "pos": pos, "kw": kw, "cpython": cpy, "bind_args": impl})
        ctx.dist["bind-shape:" + shape] += 1
        if cpy != cpy2:
            # inspect.signature.bind (3.12) rejects a positional-only name given as keyword even when **kwargs
            # takes it; the actual call is the authority, the inspect result is only a second opinion
            if sig["kw"] is not None and any(k in sig["po"] for k, _ in kw) and cpy2 == "reject":
                ctx.dist["inspect-bind-differs-posonly-name-in-kwargs"] += 1
            else:
                raise InfraError(f"CPython call and inspect.signature.bind disagree on {body} {pos} {kw}: {cpy} / {cpy2}")
        if strip(sp) != strip(cpy):
            spec_bad += 1
            ctx.report("spec:cpyBind", f"Lean spec cpyBind differs from real CPython on `{body.splitlines()[0]}` pos={pos} kw={kw}: spec `{sp}`, CPython `{cpy}`",
                       {"theorem": "C10.bind_equiv (specification cpyBind is not CPython's binding)", "signature": body, "pos": pos, "kw": kw,
                        "spec": sp, "cpython": cpy}, no_failing_input=True)
        if strip(impl) != strip(cpy):
            viol += 1
            failing.append((len(body) + 8 * (len(pos) + len(kw)), sig, body, pos, kw, cpy, impl))
        elif mo != impl:
            mirror_bad += 1
            ctx.report("mirror:bindModel", f"Lean mirror bindModel differs from the real bind_args on `{body.splitlines()[0]}` pos={pos} kw={kw}: model `{mo}`, real `{impl}` (CPython `{cpy}`: no property failure on this input)",
                       {"correspondence": "bindModel = FunctionDefinition.bind_args", "signature": body, "pos": pos, "kw": kw,
                        "model": mo, "real": impl, "cpython": cpy}, no_failing_input=True)
    # the smallest failing inputs only (a broken bind_args fails on hundreds of generated calls)
    failing.sort(key=lambda t: t[0])
    for _, sig, body, pos, kw, cpy, impl in failing[:4]:
        head = re.sub(r"def f\d+", "def f", body.splitlines()[0])
        call = "f(" + ", ".join([str(p) for p in pos] + [f"{pname(k)}={v}" for k, v in kw]) + ")"
        what = "accepts a call that CPython rejects for binding reasons" if cpy == "reject" else \
            ("rejects a call that CPython accepts" if impl == "reject" else "binds differently")
        ctx.report(f"bind:{head}:{call}",
                   f"bind_args {what}: `{head}` called as {call}: CPython `{cpy}`, bind_args `{impl}` ({len(failing)} failing calls in this run)",
                   {"kind": "bind", "sig": sig, "source": body, "pos": pos, "kw": kw, "expected": cpy, "observed": impl})
    n = len(meta)
    ctx.obligation("spec validation: Lean cpyBind = real CPython binding (actual call and inspect.signature.bind) on generated signatures x call shapes",
                   spec_bad == 0, detail=f"{n} calls, {spec_bad} differences")
    ctx.obligation("correspondence: Lean bindModel (+ super_arg) = real FunctionDefinition.bind_args called directly",
                   mirror_bad == 0 and viol == 0, detail=f"{n} calls, {mirror_bad} model differences, {viol} property failures")


def check_local_binding(ctx: Ctx):
    """the SAME signature x call matrix as check_binding, for functions and lambdas DEFINED INSIDE traced code (their
    FunctionDefinition is built by `from_ast_fn` from the AST: defaults are aligned and evaluated by the tracer itself),
    compared with CPython through traced programs"""
    rng = ctx.rng
    cases, meta = [], []
    n_sigs = ctx.scale(110, 600)
    for k in range(n_sigs):
        sig = gen_signature(rng)
        if k % 3 == 0:      # positional-only parameters with defaults followed by defaulted ordinary parameters
            names = rng.sample(range(1, 10), 5)
            n_po, n_ar = rng.randint(1, 2), rng.randint(1, 2)
            po, ar = names[:n_po], names[n_po:n_po + n_ar]
            n_def = rng.randint(n_ar + 1, n_po + n_ar)
            sig = dict(sig, po=po, ar=ar, d={n: 1000 + n for n in (po + ar)[n_po + n_ar - n_def:]}, method=False,
                       va=sig["va"] if sig["va"] not in po + ar else None, kw=sig["kw"] if sig["kw"] not in po + ar else None,
                       ko=[n for n in sig["ko"] if n not in po + ar])
            sig["kd"] = {n: v for n, v in sig["kd"].items() if n in sig["ko"]}
            if sig["va"] is not None and sig["va"] == sig["kw"]:
                sig["kw"] = None
        sig["method"] = False
        sig["po"] = [n for n in sig["po"] if n != 0]
        sig["ar"] = [n for n in sig["ar"] if n != 0]
        sig["d"] = {n: v for n, v in sig["d"].items() if n != 0}
        src, order = sig_source(sig, f"lf{k}")
        header = src.split("\n")[0]
        params = header[header.index("(") + 1: header.rindex(")")]
        ret = "(" + "".join(pname(n) + ", " for n in order) + ")"
        ns = {}
        exec(f"def probe({params}):\n    return None\n", ns)
        valid, invalid, seen = [], [], set()
        for _ in range(14):
            pos, kw = gen_call(rng, sig)
            key = (tuple(pos), tuple(kw))
            if key in seen:
                continue
            seen.add(key)
            try:
                ns["probe"](*pos, **{pname(a): v for a, v in kw})
                valid.append((pos, kw))
            except TypeError:
                invalid.append((pos, kw))
        kind = "lambda" if k % 2 else "def"
        decl = f"lf{k} = lambda {params}: {ret}" if kind == "lambda" else f"def lf{k}({params}):\n    return {ret}"
        # kw-only parameters without default crash `_ClassifyNames` for nested functions (rejection): run those alone
        solo = any(n not in sig["kd"] for n in sig["ko"])
        if valid:
            calls = ["f(" + ", ".join([str(p_) for p_ in pos] + [f"{pname(a)}={v}" for a, v in kw]) + ")" for pos, kw in valid[:6]]
            cases.append({"defs": "", "solo": solo, "body": [decl] + [f"record(l{c})".replace("lf(", f"lf{k}(") for c in calls]})
            meta.append((kind, header, calls, False))
        if invalid and k % 4 == 0:
            pos, kw = invalid[0]
            c = "f(" + ", ".join([str(p_) for p_ in pos] + [f"{pname(a)}={v}" for a, v in kw]) + ")"
            cases.append({"defs": "", "solo": True, "body": [decl, f"record(l{c})".replace("lf(", f"lf{k}(")]})
            meta.append((kind, header, [c], True))
    res = run_cases(cases, chunk=25)
    bad = 0
    stats = {"same": 0, "rejected": 0, "py-exc": 0, "diff": 0, "accepted-binding-error": 0}
    for case, (kind, header, calls, inval), r in zip(cases, meta, res):
        v = verdict(r)
        stats[v] += 1
        head = re.sub(r"def lf\d+", "def f", header)
        ctx.case(key=("local-bind", kind, header, tuple(calls)), nontrivial=v in ("same", "py-exc"), kind=f"local-bind:{kind}:{v}",
                 sample={"kind": kind, "signature": head, "calls": calls[:3], "verdict": v} if v == "same" and "/" in head else None)
        if v in ("diff", "accepted-binding-error"):
            i = 0
            if v == "diff":
                i = min(first_diff_stmt(case, r)[0], len(calls) - 1)
            small = dict(case, body=[case["body"][0], case["body"][1 + i]])
            r2 = confirm(small)
            if verdict(r2) not in ("diff", "accepted-binding-error"):
                small, r2 = case, r
            what = f"CPython {val_of(r2, 'py')}, tracer {val_of(r2, 'co')}" if verdict(r2) == "diff" else f"CPython rejects the call ({r2['py'][4]}), the tracer accepts it"
            if report_diff(ctx, f"local-bind:{kind}:{head}:{calls[i]}",
                           f"{kind} defined inside traced code `{head}` called as {calls[i]}: {what}", small, r2):
                bad += 1
    ctx.extra["local_binding_stats"] = stats
    ctx.obligation("differential correspondence: functions / lambdas defined inside traced code bind the same signature x call matrix (positional-only and keyword-only defaults, *args, **kwargs) like CPython, or are rejected",
                   bad == 0, detail=f"{len(cases)} traced programs: {stats}")


def replay_bind(r):
    sig = r["sig"]
    sig["d"] = {int(k): v for k, v in sig["d"].items()}
    sig["kd"] = {int(k): v for k, v in sig["kd"].items()}
    body, order = sig_source(sig, "f0")
    src = (f"class C_f0:\n" + "".join("    " + l + "\n" for l in body.split("\n") if l)) if sig["method"] else body
    pos, kw = r["pos"], [tuple(x) for x in r["kw"]]
    res = fork_map(_bind_task, [(src, [("f0", sig["method"], order, [(pos, kw)])])], fresh=True, batch=1)
    if res[0][0] != "ok":
        print(res[0])
        return 2
    cpy, _, impl = res[0][1][0]
    print("signature:", body.splitlines()[0])
    print("call     : pos", pos, "kw", kw)
    print("expected (CPython)  :", cpy)
    print("observed (bind_args):", impl)
    strip = lambda s: s.rsplit("| super=", 1)[0]
    return 0 if strip(cpy) == strip(impl) else 1


# ---------------------------------------------------------------------------------------------------
# running many small cases: cases expected to be accepted are packed into one traced program (markers
# separate them); a chunk whose outcome is not plain agreement is re-run case by case
# ---------------------------------------------------------------------------------------------------


def _split_marked(values, marker_of):
    out, cur = {}, None
    for v in values:
        k = marker_of(v)
        if k is not None:
            cur = k
            out[cur] = []
        elif cur is not None:
            out[cur].append(v)
    return out


def run_cases(cases, chunk=25):
    """cases: list of dict(defs=str, body=[stmt], solo=bool).  Returns one program result per case
    (same format as _prog_task) - obtained from a packed run when the whole chunk agreed."""
    results = [None] * len(cases)
    packed = [i for i, c in enumerate(cases) if not c.get("solo")]
    solo = [i for i, c in enumerate(cases) if c.get("solo")]
    chunks = [packed[i:i + chunk] for i in range(0, len(packed), chunk)]
    srcs = []
    for ch in chunks:
        dl = []
        for i in ch:
            if cases[i]["defs"].strip() and cases[i]["defs"] not in dl:
                dl.append(cases[i]["defs"])
        defs = "\n\n".join(dl)
        body = []
        for i in ch:
            body.append(f'record("##{i}")')
            body.append(f'note("##{i}")')
            body.extend(cases[i]["body"])
        srcs.append(make_program(defs, body))
    res = run_programs(srcs) if srcs else []
    for ch, r in zip(chunks, res):
        if verdict(r) == "same":
            mr = lambda v: int(v[1][2:]) if (isinstance(v, list) and v[0] == "str" and str(v[1]).startswith("##")) else None
            ml = lambda v: int(v[2:]) if (isinstance(v, str) and v.startswith("##")) else None
            pr, pl = _split_marked(r["py"][1], mr), _split_marked(r["py"][2], ml)
            cr, cl = _split_marked(r["co"][1], mr), _split_marked(r["co"][2], ml)
            for i in ch:
                results[i] = {"py": ["ok", pr.get(i, []), pl.get(i, [])], "co": ["ok", cr.get(i, []), cl.get(i, [])], "ok": True}
        else:
            solo.extend(ch)
    solo.sort()
    res = run_programs([make_program(cases[i]["defs"], cases[i]["body"]) for i in solo]) if solo else []
    for i, r in zip(solo, res):
        results[i] = r
    return results


def val_of(r, side):
    """first recorded value of one side, `err` when that side raised / rejected"""
    x = r[side]
    if x[0] != "ok" or not x[1]:
        return "err"
    return x[1][0]


def b01(v):
    """'1' / '0' for a recorded bool / int, '?...' for anything else (never raises)"""
    if isinstance(v, list) and len(v) == 2 and v[0] in ("bool", "int"):
        return str(int(v[1]))
    return "?" + repr(v)[:40]


def report_diff(ctx, signature, text, case, r, extra=None):
    # at most 3 replays per class of failing input (a broken mechanism fails on dozens of generated cases)
    cls = ":".join(signature.split(":")[:2])
    counts = ctx.__dict__.setdefault("_c10_counts", {})
    counts[cls] = counts.get(cls, 0) + 1
    if counts[cls] > 3:
        ctx.dist["unreported-further-failures:" + cls] += 1
        return True
    d = {"kind": "program", "source": make_program(case["defs"], case["body"]), "python": r["py"], "cohdl": r["co"]}
    d.update(extra or {})
    return ctx.report(signature, text, d)


# ---------------------------------------------------------------------------------------------------
# 2. starred assignment
# ---------------------------------------------------------------------------------------------------


def check_split(ctx: Ctx):
    cases, meta = [], []
    for n in range(1, ctx.scale(4, 5)):
        for star in [None] + list(range(n)):
            lo = max(0, n - 2)
            for ln in range(lo, n + ctx.scale(2, 3)):
                for kind in ("list", "tuple"):
                    vals = list(range(1, ln + 1))
                    lit = repr(vals) if kind == "list" else ("(" + "".join(f"{v}, " for v in vals) + ")")
                    k = len(cases)
                    tg = ", ".join(("*" if star == i else "") + f"t{k}_{i}" for i in range(n)) + ","
                    acc = (ln >= n - 1) if star is not None else (ln == n)
                    cases.append({"defs": "", "body": [f"{tg} = {lit}", "record((" + "".join(f"t{k}_{i}, " for i in range(n)) + "))"],
                                  "solo": not acc})
                    meta.append((n, star, vals, kind, acc))
    reqs = [f"split {n} {'-' if star is None else star} {lean_list(vals)}" for n, star, vals, kind, acc in meta]
    model = lean_io.query("C10", reqs)
    res = run_cases(cases)
    bad_model = bad_spec = 0
    for case, (n, star, vals, kind, acc), mo, r in zip(cases, meta, model, res):
        def fmt(side):
            v = val_of(r, side)
            if v == "err":
                return "reject"
            items = []
            for e in v[1:]:
                if e[0] == "int":
                    items.append(str(e[1]))
                else:
                    br = "[]" if e[0] == "list" else "()"
                    items.append(br[0] + ",".join(str(x[1]) for x in e[1:]) + br[1])
            return " ".join(items) if items else "empty"
        py, co = fmt("py"), fmt("co")
        ctx.case(key=("split", n, star, len(vals), kind), nontrivial=star is not None and len(vals) >= n,
                 kind="split:" + ("accept" if acc else "reject"),
                 sample={"targets": n, "starred": star, "source": vals, "kind": kind, "cpython": py, "tracer": co})
        if py != mo:
            bad_spec += 1
            ctx.report("spec:splitTarget", f"Lean splitTarget (proved = Python's starred assignment) differs from real CPython: n={n} star={star} src={vals}: `{mo}` vs `{py}`",
                       {"theorem": "C10.splitTarget_spec", "n": n, "star": star, "src": vals, "model": mo, "cpython": py}, no_failing_input=True)
        v = verdict(r)
        if v in ("diff", "accepted-binding-error"):
            sig = "starred-target:tuple-source-gives-tuple" if (kind == "tuple" and co.replace("(", "[").replace(")", "]") == py) \
                else f"starred-target:n={n}:star={star}:len={len(vals)}:{kind}"
            report_diff(ctx, sig, f"starred assignment with {n} targets (star at {star}) from the {kind} {vals}: CPython binds `{py}`, the tracer `{co}`", case, r)
        elif co != mo and not (co == "reject" and v == "rejected" and False):
            if co == "reject" and py != "reject":
                ctx.dist["split:tracer-rejects-valid"] += 1
            bad_model += 1
            ctx.report("mirror:splitTarget", f"Lean splitTarget differs from the tracer on n={n} star={star} src={vals} ({kind}): model `{mo}`, tracer `{co}`, CPython `{py}`",
                       {"correspondence": "splitTarget = PrepareAst._split_target", "n": n, "star": star, "src": vals, "kind": kind,
                        "model": mo, "tracer": co, "cpython": py}, no_failing_input=True)
    ctx.obligation("spec validation + correspondence: Lean splitTarget = CPython's starred assignment = tracer, all target shapes n<=3 (quick) / n<=4 (thorough) x source lengths x list/tuple (exhaustive)",
                   bad_model == 0 and bad_spec == 0, detail=f"{len(cases)} cases, {bad_spec} spec differences, {bad_model} model differences")


# ---------------------------------------------------------------------------------------------------
# 3. and / or / not
# ---------------------------------------------------------------------------------------------------

BOOL_DEFS = '''
class Tr:
    def __bool__(self):
        return True


class Fa:
    def __bool__(self):
        return False
'''
BOOL_POOL = [("0", 0), ("3", 1), ("True", 1), ("False", 0), ("None", 0), ("0.0", 0), ("2.5", 1), ("Tr()", 1), ("Fa()", 0), ("-1", 1)]
BOOL_POOL_REJ = [("[]", 0), ("[1]", 1), ("()", 0), ("{}", 0), ("{'a': 1}", 1)]


def check_boolop(ctx: Ctx):
    rng = ctx.rng
    combos = []
    for op in ("and", "or"):
        for a in BOOL_POOL:
            for b in BOOL_POOL:
                combos.append((op, [a, b], False))
        for _ in range(ctx.scale(40, 300)):
            k = rng.choice([3, 3, 4])
            combos.append((op, [rng.choice(BOOL_POOL) for _ in range(k)], False))
        for a in BOOL_POOL_REJ:
            combos.append((op, [a, rng.choice(BOOL_POOL)], True))
    cases = []
    for op, operands, solo in combos:
        expr = f" {op} ".join(f"eff({i}, {e})" for i, (e, _) in enumerate(operands))
        cases.append({"defs": BOOL_DEFS, "body": [f"record(T({expr}))"], "solo": solo})
    nots = [{"defs": BOOL_DEFS, "body": [f"record(not {e})"], "solo": False} for e, _ in BOOL_POOL]
    m_req = [f"bool {op} " + ",".join(str(t) for _, t in ops) for op, ops, _ in combos] + [f"not {t}" for _, t in BOOL_POOL]
    s_req = [f"pybool {op} " + ",".join(str(t) for _, t in ops) for op, ops, _ in combos]
    mirror = lean_io.query("C10", m_req)
    spec = lean_io.query("C10", s_req)
    res = run_cases(cases + nots, chunk=60)
    bad_spec = bad_model = 0
    sc_reported = False
    for idx, ((op, operands, solo), case, r) in enumerate(zip(combos, cases, res)):
        mv, mk = mirror[idx].split(" ")
        sv, sk = spec[idx].split(" ")
        py, co = val_of(r, "py"), val_of(r, "co")
        pyv = "err" if py == "err" else b01(py)
        cov = "err" if co == "err" else b01(co)
        ctx.case(key=("bool", op, tuple(e for e, _ in operands)), nontrivial=True, kind=f"boolop:{op}:{len(operands)}",
                 sample={"expr": case["body"][0], "cpython": py, "tracer": co})
        if pyv != ("1" if sv != "0" else "0") or len(r["py"][2]) != int(sk):
            bad_spec += 1
            ctx.report("spec:pyBoolOp", f"Lean pyBoolOp differs from real CPython on `{case['body'][0]}`: spec `{spec[idx]}`, CPython value {pyv} after {len(r['py'][2])} operand evaluations",
                       {"theorem": "C10.boolop_truth", "expr": case["body"][0]}, no_failing_input=True)
        v = verdict(r)
        if v == "diff":
            report_diff(ctx, f"boolop:{op}:" + ",".join(e for e, _ in operands), f"`{case['body'][0]}`: CPython's truth value {pyv}, tracer {cov}", case, r)
        elif v == "same":
            if cov != mv or len(r["co"][2]) != int(mk):
                bad_model += 1
                ctx.report("mirror:foldBoolOp", f"Lean foldBoolOp differs from the tracer on `{case['body'][0]}`: model `{mirror[idx]}`, tracer value {cov} after {len(r['co'][2])} operand evaluations",
                           {"correspondence": "foldBoolOp = ast.BoolOp folding", "expr": case["body"][0]}, no_failing_input=True)
            if r["py"][2] != r["co"][2] and not sc_reported:
                # proved: C10.boolop_short_circuit_fails_at.  Make the side effect visible in a VALUE (minimal replay)
                sc_reported = True
                mc = {"defs": "", "body": ["record((T(False and eff(1, True)), len(LOG)))"]}
                mr = confirm(mc)
                if verdict(mr) == "diff":
                    report_diff(ctx, "boolop:no-short-circuit",
                                "`False and eff(1, True)`: CPython does not evaluate the second operand (len(LOG)=0), the tracer does (len(LOG)=1): and/or do not short-circuit on constants",
                                mc, mr)
        else:
            ctx.dist[f"boolop:{v}"] += 1
    for (e, t), mo, case, r in zip(BOOL_POOL, mirror[len(combos):], nots, res[len(combos):]):
        py, co = val_of(r, "py"), val_of(r, "co")
        ctx.case(key=("not", e), nontrivial=True, kind="boolop:not")
        if verdict(r) == "diff":
            report_diff(ctx, f"not:{e}", f"`not {e}`: CPython {py}, tracer {co}", case, r)
        elif verdict(r) == "same" and b01(co) != mo:
            bad_model += 1
    ctx.obligation("spec validation + correspondence: Lean pyBoolOp = CPython and/or (value and number of operands evaluated); Lean foldBoolOp = tracer; all operand pairs of the pool + random longer ones",
                   bad_spec == 0 and bad_model == 0, detail=f"{len(combos)} expressions, {bad_spec} spec differences, {bad_model} model differences")


# ---------------------------------------------------------------------------------------------------
# 4. comparison chains
# ---------------------------------------------------------------------------------------------------

CHAIN_DEFS = '''
class V:
    def __init__(self, i, res):
        self.i = i
        self.res = res

    def __lt__(self, o):
        notec(self.i)
        return self.res[self.i]

    def __le__(self, o):
        notec(self.i)
        return self.res[self.i]

    def __gt__(self, o):
        notec(self.i)
        return self.res[self.i]

    def __ge__(self, o):
        notec(self.i)
        return self.res[self.i]

    def __eq__(self, o):
        notec(self.i)
        return self.res[self.i]

    def __ne__(self, o):
        notec(self.i)
        return self.res[self.i]
'''
CMP_OPS = ["<", "<=", ">", ">=", "==", "!="]


def check_chain(ctx: Ctx):
    rng = ctx.rng
    cases, meta = [], []
    for n in (1, 2, 3, 4):
        for links in itertools.product([1, 0], repeat=n):
            for _ in range(ctx.scale(2, 6) if n < 4 else 1):
                ops = [rng.choice(CMP_OPS) for _ in range(n)]
                res = "(" + "".join("True, " if b else "False, " for b in links) + ")"
                expr = f"eff(0, V(0, {res}))" + "".join(f" {ops[i]} eff({i + 1}, V({i + 1}, {res}))" for i in range(n))
                cases.append({"defs": CHAIN_DEFS, "body": [f"record({expr})"]})
                meta.append(("obj", links, ops))
    # plain integers (values only)
    for _ in range(ctx.scale(60, 400)):
        n = rng.choice([2, 2, 3, 4])
        vals = [rng.randint(0, 3) for _ in range(n + 1)]
        ops = [rng.choice(CMP_OPS) for _ in range(n)]
        expr = f"eff(0, {vals[0]})" + "".join(f" {ops[i]} eff({i + 1}, {vals[i + 1]})" for i in range(n))
        links = tuple(int(eval(f"{vals[i]} {ops[i]} {vals[i + 1]}")) for i in range(n))
        cases.append({"defs": "", "body": [f"record({expr})"]})
        meta.append(("int", links, ops))
    mirror = lean_io.query("C10", ["chain " + ",".join(map(str, l)) for _, l, _ in meta])
    spec = lean_io.query("C10", ["pychain " + ",".join(map(str, l)) for _, l, _ in meta])
    res = run_cases(cases, chunk=40)
    bad_spec = bad_model = 0
    sc_reported = False
    for (kind, links, ops), case, mo, sp, r in zip(meta, cases, mirror, spec, res):
        mv, mt = mo.split(" ", 1)
        sv, st = sp.split(" ", 1)
        if kind == "int":  # no comparison events are logged for ints
            mt = " ".join(t for t in mt.split(" ") if t[0] == "o")
            st = " ".join(t for t in st.split(" ") if t[0] == "o")
        py, co = val_of(r, "py"), val_of(r, "co")
        ctx.case(key=("chain", kind, links, tuple(ops)), nontrivial=len(links) >= 2, kind=f"chain:{kind}:{len(links)}",
                 sample={"expr": case["body"][0], "cpython": [py, r["py"][2]], "tracer": [co, r["co"][2]]})
        if py == "err" or b01(py) != sv or " ".join(r["py"][2]) != st:
            bad_spec += 1
            ctx.report("spec:pyChain", f"Lean pyChain differs from real CPython on `{case['body'][0]}`: spec `{sp}`, CPython {py} trace {r['py'][2]}",
                       {"theorem": "C10.compare_chain", "expr": case["body"][0]}, no_failing_input=True)
        v = verdict(r)
        if v == "diff":
            report_diff(ctx, "chain:" + ",".join(map(str, links)) + ":" + ",".join(ops), f"`{case['body'][0]}`: CPython {py}, tracer {co}", case, r)
        elif v == "same":
            if b01(co) != mv or " ".join(r["co"][2]) != mt:
                bad_model += 1
                ctx.report("mirror:foldCompareChain", f"Lean foldCompareChain differs from the tracer on `{case['body'][0]}`: model `{mo}`, tracer {co} trace {r['co'][2]}",
                           {"correspondence": "foldCompareChain = ast.Compare loop", "expr": case["body"][0], "links": links}, no_failing_input=True)
            po = [t for t in r["py"][2] if t[0] == "o"]
            to = [t for t in r["co"][2] if t[0] == "o"]
            if po != to and not sc_reported:
                sc_reported = True
                mc = {"defs": "", "body": ["record((1 > 2 < eff(2, 3), len(LOG)))"]}
                mr = confirm(mc)
                if verdict(mr) == "diff":
                    report_diff(ctx, "chain:no-short-circuit",
                                "`1 > 2 < eff(2, 3)`: CPython stops at the false link and never evaluates the third operand (len(LOG)=0), the tracer evaluates all operands up front (len(LOG)=1)",
                                mc, mr)
        else:
            ctx.dist[f"chain:{v}"] += 1
            if v == "rejected":
                bad_model += 1
                ctx.report("mirror:foldCompareChain", f"the tracer rejects the constant chain `{case['body'][0]}` ({r['co'][3:5]})",
                           {"correspondence": "foldCompareChain = ast.Compare loop", "expr": case["body"][0]}, no_failing_input=True)
    ctx.obligation("spec validation + correspondence: Lean pyChain = CPython (value and evaluation trace); Lean foldCompareChain = tracer (value and trace); all link outcomes for 1..4 links",
                   bad_spec == 0 and bad_model == 0, detail=f"{len(cases)} chains, {bad_spec} spec differences, {bad_model} model differences")


# ---------------------------------------------------------------------------------------------------
# 5. operator dispatch
# ---------------------------------------------------------------------------------------------------

BIN_OPS = [("+", "add"), ("-", "sub"), ("*", "mul"), ("//", "floordiv"), ("%", "mod"), ("**", "pow"), ("&", "and"),
           ("|", "or"), ("^", "xor"), ("<<", "lshift"), (">>", "rshift"), ("@", "matmul"), ("/", "truediv")]


def _meth(name, log, ret, ind="    "):
    r = {"n": "NotImplemented", "v1": "1", "v2": "2", "t": "True", "f": "False"}[ret]
    return f"{ind}def {name}(self, o):\n{ind}    note('{log}')\n{ind}    return {r}\n"


def binop_case(k, rel, lop, rrop, sym, nm):
    """classes for one dispatch configuration; lop/rrop in {'-','n','v'}"""
    L, R = f"L{k}", f"R{k}"
    op, rop = f"__{nm}__", f"__r{nm}__"
    lm = _meth(op, "l", "n" if lop == "n" else "v1") if lop != "-" else ""
    rm = _meth(rop, "r", "n" if rrop == "n" else "v2") if rrop != "-" else ""
    if rel == "same":
        defs = f"class {L}:\n    pass\n{lm}{rm}"
        body = [f"record({L}() {sym} {L}())"]
        cfg = (1, 0, 0)
    elif rel == "unrel":
        defs = f"class {L}:\n    pass\n{lm}\n\nclass {R}:\n    pass\n{rm}"
        body = [f"record({L}() {sym} {R}())"]
        cfg = (0, 0, 1)
    elif rel == "rsub-override":
        defs = f"class {L}:\n    pass\n{lm}{_meth(rop, 'X', 'v1')}\n\nclass {R}({L}):\n    pass\n{rm}"
        body = [f"record({L}() {sym} {R}())"]
        cfg = (0, 1, 1)
    elif rel == "rsub-inherit":
        defs = f"class {L}:\n    pass\n{lm}{rm}\n\nclass {R}({L}):\n    pass\n"
        body = [f"record({L}() {sym} {R}())"]
        cfg = (0, 1, 0)
    else:  # lsub: type(lhs) is a subclass of type(rhs)
        defs = f"class {R}:\n    pass\n{rm}\n\nclass {L}({R}):\n    pass\n{lm}"
        body = [f"record({L}() {sym} {R}())"]
        cfg = (0, 0, 0)
    tok = {"-": "-", "n": "n", "v": "v"}
    lean = f"{cfg[0]} {cfg[1]} {cfg[2]} " + ("-" if lop == "-" else ("n" if lop == "n" else "v1")) + " " + \
        ("-" if rrop == "-" else ("n" if rrop == "n" else "v2"))
    return defs, body, lean


def _out_token(r, side, kind):
    x = r[side]
    calls = "".join(t for t in x[2] if t in ("l", "r")) or "-"
    v = val_of(r, side)
    if v == "err":
        res = "err"
    elif not (isinstance(v, list) and len(v) == 2):
        res = "?" + repr(v)[:40]
    elif kind == "bin":
        res = f"v{v[1]}"
    else:
        res = "t" if v[1] is True else ("f" if v[1] is False else f"?{v[1]}")
    return calls, res


def check_binop(ctx: Ctx):
    cases, meta = [], []
    ops = BIN_OPS if not ctx.quick else BIN_OPS[:1]
    k = 0
    for oi, (sym, nm) in enumerate(BIN_OPS):
        for rel in ("same", "unrel", "rsub-override", "rsub-inherit", "lsub"):
            for lop in "-nv":
                for rrop in ("nv" if rel == "rsub-override" else "-nv"):
                    k += 1
                    if ctx.quick and (sym, nm) not in ops and (k % len(BIN_OPS)) != oi:
                        continue
                    defs, body, lean = binop_case(k, rel, lop, rrop, sym, nm)
                    cases.append({"defs": defs, "body": body, "solo": True})
                    meta.append((sym, rel, lop, rrop, lean))
    mirror = lean_io.query("C10", ["binop " + m[4] for m in meta])
    fixed = lean_io.query("C10", ["binopfixed " + m[4] for m in meta])
    spec = lean_io.query("C10", ["cpybinop " + m[4] for m in meta])
    # pack the cases for which the mirror predicts a value
    for c, mo in zip(cases, mirror):
        c["solo"] = mo.endswith("err")
    res = run_cases(cases, chunk=30)
    bad_spec = 0
    agree_cur = agree_fix = 0
    prio_reported = False
    diffs = []
    for case, (sym, rel, lop, rrop, lean), mo, fx, sp, r in zip(cases, meta, mirror, fixed, spec, res):
        pc, pv = _out_token(r, "py", "bin")
        cc, cv = _out_token(r, "co", "bin")
        if sym == "|" and lop == "-":
            # quirk of the tracer (mirrored here, allowed by the property = a rejection): `hasattr(type_lhs, "__or__")`
            # is true for EVERY class because `type.__or__` (PEP 604 unions) is found through the metaclass; the
            # call `type.__or__(lhs, rhs)` then fails and the reflected `__ror__` is never tried
            mo = "- err"
            if rel != "rsub-override":   # (with the priority rule the reflected method of the subclass is asked first)
                fx = "- err"
        ctx.case(key=("binop", sym, rel, lop, rrop), nontrivial=rel != "same" and lop != "v", kind=f"binop:{rel}",
                 sample={"expr": case["body"][0], "config": lean, "cpython": [pc, pv], "tracer": [cc, cv]})
        if f"{pc} {pv}" != sp:
            bad_spec += 1
            ctx.report("spec:cpyBinOp", f"Lean cpyBinOp differs from real CPython for `{sym}` config {rel} lop={lop} rrop={rrop}: spec `{sp}`, CPython `{pc} {pv}`",
                       {"theorem": "C10.dispatch_equiv_partial", "source": make_program(case["defs"], case["body"])}, no_failing_input=True)
        got = f"{cc} {cv}"
        agree_cur += got == mo
        agree_fix += got == fx
        if got != mo and got != fx:
            diffs.append((case, sym, rel, lop, rrop, mo, fx, got))
        v = verdict(r)
        if v == "diff":
            priority = rel == "rsub-override"
            if priority:
                if not prio_reported and v == "diff":
                    prio_reported = True
                    report_diff(ctx, "binop:subclass-priority",
                                f"`{case['body'][0]}` with the right operand's class a proper subclass overriding `__r{sym}__`-method: CPython calls the reflected method first ({pc} -> {pv}), the tracer calls the left operand's method ({cc} -> {cv})",
                                case, r)
            else:
                report_diff(ctx, f"binop:{sym}:{rel}:{lop}:{rrop}", f"`{case['body'][0]}` ({rel}, lhs method {lop}, reflected {rrop}): CPython {pc} -> {pv}, tracer {cc} -> {cv}", case, r)
    n = len(cases)
    ok = agree_cur == n or agree_fix == n
    if not ok:
        for case, sym, rel, lop, rrop, mo, fx, got in diffs[:3]:
            ctx.report("mirror:dispatchBinOp", f"the tracer's operator dispatch matches neither Lean mirror for `{sym}` {rel} lop={lop} rrop={rrop}: tracer `{got}`, dispatchBinOp `{mo}`, dispatchBinOpFixed `{fx}`",
                       {"correspondence": "dispatchBinOp(/Fixed) = ast.BinOp dispatch", "source": make_program(case["defs"], case["body"])}, no_failing_input=True)
        if not diffs:
            ctx.report("mirror:dispatchBinOp", f"the tracer's operator dispatch is a mixture of the two Lean mirrors (current: {agree_cur}/{n}, with priority rule: {agree_fix}/{n})",
                       {"correspondence": "dispatchBinOp(/Fixed) = ast.BinOp dispatch"}, no_failing_input=True)
    ctx.extra["binop_dispatch_matches"] = "dispatchBinOpFixed (priority rule present)" if agree_fix == n else ("dispatchBinOp (no priority rule)" if agree_cur == n else "neither")
    ctx.obligation("spec validation: Lean cpyBinOp = real CPython (calls and value) on the complete configuration space x operators", bad_spec == 0,
                   detail=f"{n} configurations, {bad_spec} differences")
    ctx.obligation("correspondence: tracer BinOp dispatch = Lean dispatchBinOp (current) or dispatchBinOpFixed (with the priority rule) on the complete configuration space", ok,
                   detail=f"{n} configurations; agree with current mirror {agree_cur}, with fixed mirror {agree_fix}")


CMP_KINDS = [("<", "lt", "gt", "ord"), ("<=", "le", "ge", "ord"), (">", "gt", "lt", "ord"), (">=", "ge", "le", "ord"),
             ("==", "eq", "eq", "eq"), ("!=", "ne", "ne", "ne")]


def cmp_case(k, rel, lop, rrop, sym, nm, rnm):
    L, R = f"L{k}", f"R{k}"
    op, rop = f"__{nm}__", f"__{rnm}__"
    lm = _meth(op, "l", lop)
    rm = _meth(rop, "r", rrop)
    if rel in ("same", "ident"):
        if op == rop:   # == / != : one method serves both roles, distinguish by the receiver
            r1 = {"n": "NotImplemented", "t": "True", "f": "False"}
            meth = (f"    def {op}(self, o):\n        if self.left:\n            note('l')\n            return {r1[lop]}\n"
                    f"        note('r')\n        return {r1[rrop]}\n")
            defs = f"class {L}:\n    def __init__(self, left):\n        self.left = left\n\n{meth}"
            if rel == "ident":
                return None
            body = [f"record({L}(True) {sym} {L}(False))"]
        else:
            defs = f"class {L}:\n    pass\n{lm}{rm}"
            body = [f"x{k} = {L}()", f"record(x{k} {sym} x{k})"] if rel == "ident" else [f"record({L}() {sym} {L}())"]
        cfg = (1, 0, 1 if rel == "ident" else 0)
    elif rel == "unrel":
        defs = f"class {L}:\n    pass\n{lm}\n\nclass {R}:\n    pass\n{rm}"
        body = [f"record({L}() {sym} {R}())"]
        cfg = (0, 0, 0)
    elif rel == "rsub-override":
        defs = f"class {L}:\n    pass\n{lm}\n\nclass {R}({L}):\n    pass\n{rm}"
        if op == rop:
            defs = f"class {L}:\n    pass\n{lm}\n\nclass {R}({L}):\n    pass\n{rm}"
        body = [f"record({L}() {sym} {R}())"]
        cfg = (0, 1, 0)
    elif rel == "rsub-inherit":
        if op == rop:
            return None
        defs = f"class {L}:\n    pass\n{lm}{rm}\n\nclass {R}({L}):\n    pass\n"
        body = [f"record({L}() {sym} {R}())"]
        cfg = (0, 1, 0)
    else:
        if op == rop:
            defs = f"class {R}:\n    pass\n{rm}\n\nclass {L}({R}):\n    pass\n{lm}"
        else:
            defs = f"class {R}:\n    pass\n{rm}\n\nclass {L}({R}):\n    pass\n{lm}"
        body = [f"record({L}() {sym} {R}())"]
        cfg = (0, 0, 0)
    return defs, body, cfg


def check_cmp(ctx: Ctx):
    cases, meta = [], []
    k = 0
    for ki, (sym, nm, rnm, kind) in enumerate(CMP_KINDS):
        for rel in ("same", "ident", "unrel", "rsub-override", "rsub-inherit", "lsub"):
            for lop in "ntf":
                for rrop in "ntf":
                    k += 1
                    if ctx.quick and nm not in ("lt", "eq") and (k % 6) != ki:
                        continue
                    c = cmp_case(k, rel, lop, rrop, sym, nm, rnm)
                    if c is None:
                        continue
                    defs, body, cfg = c
                    lean = f"{kind} {cfg[0]} {cfg[1]} {cfg[2]} {lop} {rrop}"
                    cases.append({"defs": defs, "body": body, "solo": True})
                    meta.append((sym, rel, lop, rrop, lean))
    mirror = lean_io.query("C10", ["cmp " + m[4] for m in meta])
    fixed = lean_io.query("C10", ["cmpfixed " + m[4] for m in meta])
    spec = lean_io.query("C10", ["cpycmp " + m[4] for m in meta])
    for c, mo in zip(cases, mirror):
        c["solo"] = mo.endswith("err")
    res = run_cases(cases, chunk=30)
    bad_spec = agree_cur = agree_fix = 0
    prio_reported = False
    diffs = []
    for case, (sym, rel, lop, rrop, lean), mo, fx, sp, r in zip(cases, meta, mirror, fixed, spec, res):
        pc, pv = _out_token(r, "py", "cmp")
        cc, cv = _out_token(r, "co", "cmp")
        if rel == "same" and sym in ("==", "!="):
            # one method plays both roles here and the tracer's own bookkeeping compares objects with `==`
            # natively: only the value is compared for these configurations
            pc = cc = "*"
            mo, fx, sp = ["* " + x.split(" ")[1] for x in (mo, fx, sp)]
        ctx.case(key=("cmp", sym, rel, lop, rrop), nontrivial=lop == "n" or rel.startswith("rsub"), kind=f"cmp:{rel}",
                 sample={"expr": case["body"][-1], "config": lean, "cpython": [pc, pv], "tracer": [cc, cv]})
        if f"{pc} {pv}" != sp:
            bad_spec += 1
            ctx.report("spec:cpyCmp", f"Lean cpyCmp differs from real CPython for `{sym}` config {rel} lop={lop} rrop={rrop}: spec `{sp}`, CPython `{pc} {pv}`",
                       {"theorem": "C10.cmp_dispatch_partial", "source": make_program(case["defs"], case["body"])}, no_failing_input=True)
        got = f"{cc} {cv}"
        agree_cur += got == mo
        agree_fix += got == fx
        if got != mo and got != fx:
            diffs.append((case, sym, rel, lop, rrop, mo, fx, got))
        v = verdict(r)
        if v == "diff":
            if rel.startswith("rsub"):
                if not prio_reported and v == "diff":
                    prio_reported = True
                    report_diff(ctx, "compare:subclass-priority",
                                f"`{case['body'][-1]}` with the right operand's class a proper subclass of the left one: CPython calls the right operand's reflected comparison first ({pc} -> {pv}), the tracer the left operand's method ({cc} -> {cv})",
                                case, r)
            else:
                report_diff(ctx, f"compare:{sym}:{rel}:{lop}:{rrop}", f"`{case['body'][-1]}` ({rel}, lhs method {lop}, reflected {rrop}): CPython {pc} -> {pv}, tracer {cc} -> {cv}", case, r)
    n = len(cases)
    ok = agree_cur == n or agree_fix == n
    if not ok:
        for case, sym, rel, lop, rrop, mo, fx, got in diffs[:3]:
            ctx.report("mirror:dispatchCmp", f"the tracer's comparison dispatch matches neither Lean mirror for `{sym}` {rel} lop={lop} rrop={rrop}: tracer `{got}`, dispatchCmp `{mo}`, dispatchCmpFixed `{fx}`",
                       {"correspondence": "dispatchCmp(/Fixed) = ast.Compare dispatch", "source": make_program(case["defs"], case["body"])}, no_failing_input=True)
        if not diffs:
            ctx.report("mirror:dispatchCmp", f"the tracer's comparison dispatch is a mixture of the two Lean mirrors (current: {agree_cur}/{n}, with priority rule: {agree_fix}/{n})",
                       {"correspondence": "dispatchCmp(/Fixed) = ast.Compare dispatch"}, no_failing_input=True)
    ctx.extra["cmp_dispatch_matches"] = "dispatchCmpFixed" if agree_fix == n else ("dispatchCmp" if agree_cur == n else "neither")
    ctx.obligation("spec validation: Lean cpyCmp = real CPython (calls and value) on the configuration space x comparison operators", bad_spec == 0,
                   detail=f"{n} configurations, {bad_spec} differences")
    ctx.obligation("correspondence: tracer Compare dispatch = Lean dispatchCmp (current) or dispatchCmpFixed on the configuration space", ok,
                   detail=f"{n} configurations; agree with current mirror {agree_cur}, with fixed mirror {agree_fix}")


# ---------------------------------------------------------------------------------------------------
# 6. whole generated programs (differential correspondence of the glue around the proved cores)
# ---------------------------------------------------------------------------------------------------
# A program is a list of independent snippets (module-level definitions + statements of `main`); every
# snippet records its values through `record`.  Snippet generators are parametrised by the PRNG and by a
# unique suffix `u` that keeps the names of different snippets apart.


def _ints(rng, n, lo=-4, hi=9):
    return [rng.randint(lo, hi) for _ in range(n)]


def _intexpr(rng, names, depth):
    """random integer expression over the given variable names (no division by zero, small powers)"""
    if depth <= 0 or rng.random() < 0.25:
        return rng.choice(names) if names and rng.random() < 0.6 else str(rng.randint(0, 9))
    k = rng.random()
    a, b = _intexpr(rng, names, depth - 1), _intexpr(rng, names, depth - 1)
    if k < 0.55:
        return f"({a} {rng.choice(['+', '-', '*', '&', '|', '^'])} {b})"
    if k < 0.70:
        return f"({a} {rng.choice(['//', '%'])} ({b} * {b} + {rng.randint(1, 5)}))"
    if k < 0.78:
        return f"(-{a})"
    if k < 0.86:
        return f"(({a}) ** {rng.randint(0, 3)})"
    if k < 0.93:
        return f"({a} if {_boolexpr(rng, names, depth - 1)} else {b})"
    return f"abs({a})" if rng.random() < 0.5 else f"max({a}, {b})"


def _boolexpr(rng, names, depth):
    a, b = _intexpr(rng, names, depth - 1), _intexpr(rng, names, depth - 1)
    k = rng.random()
    if depth <= 0 or k < 0.45:
        return f"({a} {rng.choice(CMP_OPS)} {b})"
    if k < 0.6:
        return f"({a} {rng.choice(CMP_OPS)} {b} {rng.choice(CMP_OPS)} {_intexpr(rng, names, depth - 1)})"
    if k < 0.8:
        return f"({_boolexpr(rng, names, depth - 1)} {rng.choice(['and', 'or'])} {_boolexpr(rng, names, depth - 1)})"
    if k < 0.9:
        return f"(not {_boolexpr(rng, names, depth - 1)})"
    nm = rng.choice(names) if names else "None"
    return rng.choice([f"isinstance({a}, int)", f"isinstance({a}, (str, bool))", f"(type({a}) is int)", f"({nm} is None)", f"({nm} is not None)"])


def render_call(rng, fn, pos, kw):
    """render a call with the positional values / keyword pairs split randomly into plain, * and ** parts"""
    parts = []
    i = 0
    while i < len(pos):
        if rng.random() < 0.3:
            j = rng.randint(i, len(pos))
            seq = ", ".join(map(str, pos[i:j]))
            parts.append(f"*[{seq}]" if rng.random() < 0.5 else f"*({seq}{',' if j - i == 1 else ''})")
            i = j
            if j == i and rng.random() < 0.5:
                continue
        else:
            parts.append(str(pos[i]))
            i += 1
    i = 0
    while i < len(kw):
        if rng.random() < 0.3:
            j = rng.randint(i + 1, len(kw))
            parts.append("**{" + ", ".join(f"'{pname(k)}': {v}" for k, v in kw[i:j]) + "}")
            i = j
        else:
            parts.append(f"{pname(kw[i][0])}={kw[i][1]}")
            i += 1
    return f"{fn}({', '.join(parts)})"


def snip_call(rng, u):
    """all parameter kinds x call shapes through the whole tracer: module-level function, local function
    (defaults evaluated in the enclosing traced scope), lambda, method, static/class method, __call__, __init__"""
    sig = gen_signature(rng)
    sig["method"] = False
    sig["po"] = [n for n in sig["po"] if n != 0]
    sig["ar"] = [n for n in sig["ar"] if n != 0]
    sig["d"] = {k: v for k, v in sig["d"].items() if k != 0}
    kind = rng.choice(["module", "local", "lambda", "method", "static", "class", "call", "init"])
    body_src, order = sig_source(sig, f"f{u}")
    header = body_src.split("\n")[0]
    params = header[header.index("(") + 1: header.rindex(")")]
    ret = "(" + "".join(pname(n) + ", " for n in order) + ")"
    defs, pre = "", []
    if kind == "module":
        defs, fn = body_src, f"f{u}"
    elif kind == "local":
        pre, fn = [f"def f{u}({params}):\n    return {ret}"], f"f{u}"
    elif kind == "lambda":
        pre, fn = [f"f{u} = lambda {params}: {ret}"], f"f{u}"
    else:
        sp = ("self" + (", " if params else "")) if kind in ("method", "call", "init") else ("cls, " if kind == "class" and params else ("cls" if kind == "class" else ""))
        if kind in ("method", "call", "init", "class") and sig["po"] == [] and "/" not in params:
            pass
        mname = {"method": "m", "static": "m", "class": "m", "call": "__call__", "init": "__init__"}[kind]
        deco = {"static": "    @staticmethod\n", "class": "    @classmethod\n"}.get(kind, "")
        if kind == "init":
            bodyl = f"        self.got = {ret}\n"
        else:
            bodyl = f"        return {ret}\n"
        defs = f"class K{u}:\n{deco}    def {mname}({sp}{params}):\n{bodyl}"
        pre = [f"k{u} = K{u}()"] if kind in ("method", "call") else []
        fn = {"method": f"k{u}.m", "static": f"K{u}.m", "class": f"K{u}.m", "call": f"k{u}", "init": f"K{u}"}[kind]
    stmts = list(pre)
    sig2 = dict(sig, method=False)
    ns = {}
    exec(f"def probe({params}):\n    return None\n", ns)     # plain Python, only to sort calls into valid / invalid
    n_calls = rng.randint(1, 3)
    invalid = None
    for _ in range(30):
        pos, kw = gen_call(rng, sig2)
        try:
            ns["probe"](*pos, **{pname(k): v for k, v in kw})
            ok = True
        except TypeError:
            ok = False
        call = render_call(rng, fn, pos, kw)
        st = f"record({call}.got)" if kind == "init" else f"record({call})"
        if ok and n_calls > 0:
            stmts.append(st)
            n_calls -= 1
        elif not ok and invalid is None and rng.random() < 0.5:
            invalid = st
        if n_calls == 0 and (invalid is not None or rng.random() < 0.5):
            break
    if invalid is not None and rng.random() < 0.6:
        stmts.append(invalid)     # CPython raises a binding TypeError here: the tracer has to reject the program
    return {"family": "call:" + kind, "defs": defs, "body": stmts}


def snip_closure(rng, u):
    a, b, c = _ints(rng, 3, 1, 9)
    k = rng.randrange(5)
    if k == 0:
        defs = f"G{u} = {a}\n\n\ndef mk{u}(n):\n    def inner(x, *, k=n):\n        return x * {b} + n + k + G{u}\n    return inner\n"
        body = [f"f{u} = mk{u}({b})", f"g{u} = mk{u}({c})", f"record((f{u}(1), g{u}(1), f{u}(2, k=7), g{u}({a})))"]
    elif k == 1:
        defs = ""
        body = [f"x{u} = {a}", f"def outer{u}(y):\n    z = y + x{u}\n    def mid(w):\n        def inner(v):\n            return (v, w, z, y, x{u})\n        return inner\n    return mid(z * 2)",
                f"record(outer{u}({b})({c}))", f"record(outer{u}({c})({a}))"]
    elif k == 2:
        defs = f"def fact{u}(n):\n    return 1 if n <= 1 else n * fact{u}(n - 1)\n\n\ndef fib{u}(n):\n    if n < 2:\n        return n\n    else:\n        return fib{u}(n - 1) + fib{u}(n - 2)\n"
        body = [f"record((fact{u}({a % 6}), fib{u}({b % 8})))"]
    elif k == 3:
        defs = ""
        body = [f"fs{u} = [lambda x, i=i: x * i + {a} for i in range(3)]", f"record([f({b}) for f in fs{u}])",
                f"add{u} = lambda p, q={c}: p + q", f"record((add{u}(1), add{u}(1, 2), add{u}(q=5, p=1), (lambda: {a})()))"]
    else:
        defs = ""
        body = [f"def counter{u}(start):\n    total = start + {a}\n    def get():\n        nonlocal total\n        return total * 2\n    return get",
                f"record(counter{u}({b})())",
                f"def apply{u}(f, *args, **kw):\n    return f(*args, **kw)",
                f"record(apply{u}(lambda p, q=1, *r, s={c}: (p, q, r, s), 1, 2, 3, s=4))",
                f"record(apply{u}(max, {a}, {b}))"]
    return {"family": f"closure:{k}", "defs": defs, "body": body}


def snip_class(rng, u):
    a, b, c = _ints(rng, 3, 1, 9)
    depth = rng.randint(1, 3)
    defs = (f"class A{u}:\n    tag = {a}\n\n    def __init__(self, v, w={b}):\n        self.v = v\n        self.w = w\n\n"
            f"    def val(self):\n        return self.v * {c}\n\n    def who(self):\n        return ['A']\n\n"
            f"    @property\n    def p(self):\n        return self.v + self.w\n\n"
            f"    @staticmethod\n    def sm(x, y=2):\n        return x - y\n\n    @classmethod\n    def make(cls, x):\n        return cls(x)\n\n"
            f"    def __getitem__(self, i):\n        return self.v + i\n\n    def __bool__(self):\n        return self.v > {b}\n\n"
            f"    def __neg__(self):\n        return A{u}(-self.v)\n\n    def __call__(self, x, /, y=1, *z, k=0, **kw):\n        return (self.v, x, y, z, k, kw)\n\n"
            f"    def __len__(self):\n        return {a}\n\n")
    prev = f"A{u}"
    names = [prev]
    has_w = True
    for d in range(1, depth + 1):
        nm = f"{'BCD'[d - 1]}{u}"
        over_init = rng.random() < 0.7
        defs += f"\nclass {nm}({prev}):\n"
        if over_init:
            wa = f", w={d * 10}" if has_w else ""
            defs += f"    def __init__(self, v):\n        super().__init__(v + {d}{wa})\n        self.z{d} = v * {d}\n\n"
            has_w = False
        if rng.random() < 0.7:
            defs += f"    def val(self):\n        return super().val() + {d * 100}\n\n"
        if rng.random() < 0.5:
            defs += f"    def who(self):\n        return ['{nm[0]}'] + super().who()\n\n"
        if rng.random() < 0.4:
            defs += f"    tag = {a + d}\n\n"
        if rng.random() < 0.4:
            defs += f"    @property\n    def p(self):\n        return super().p * 2\n\n"
        defs += f"    def only{d}(self):\n        return self.tag + {d}\n"
        prev = nm
        names.append(nm)
    body = []
    objs = []
    for i, nm in enumerate(names):
        o = f"o{u}_{i}"
        body.append(f"{o} = {nm}({rng.randint(0, 9)})")
        objs.append((o, nm, i))
    for o, nm, i in objs:
        pieces = [f"{o}.val()", f"{o}.who()", f"{o}.p", f"{o}.tag", f"{nm}.tag", f"{o}.w", f"{o}[{c}]", f"len({o})", f"{nm}.sm({a})",
                  f"{o}.sm({a}, y={b})", f"{nm}.make({b}).val()", f"(-{o}).v", f"(1 if {o} else 2)", f"(not {o})", f"{o}({a}, k={b})", f"{o}(1, 2, 3, q={c})",
                  f"isinstance({o}, A{u})", f"isinstance({o}, {names[-1]})", f"type({o}) is {nm}", f"type({o}) is A{u}", f"isinstance({o}, (int, {names[0]}))",
                  f"{o}", f"getattr({o}, 'v')", f"hasattr({o}, 'z1')"]
        if i >= 1:
            pieces += [f"{o}.only{i}()"]
        rng.shuffle(pieces)
        for pc in pieces[: rng.randint(3, 7)]:
            body.append(f"record({pc})")
    return {"family": f"class:depth{depth}", "defs": defs, "body": body}


def snip_operators(rng, u):
    a, b = _ints(rng, 2, 1, 9)
    ops = rng.sample(BIN_OPS[:9], 4)
    modes = {}
    defs = f"class N{u}:\n    def __init__(self, v):\n        self.v = v\n\n"
    for sym, nm in ops:
        mode = rng.choice(["both", "both", "fwd", "ni"])
        modes[sym] = mode
        defs += (f"    def __{nm}__(self, o):\n        if isinstance(o, N{u}):\n            return N{u}(self.v {sym if sym not in ('//', '%', '**') else '+'} o.v)\n"
                 + (f"        if isinstance(o, int):\n            return N{u}(self.v {sym if sym not in ('//', '%', '**') else '-'} o)\n" if mode != "ni" else "")
                 + "        return NotImplemented\n\n")
        if mode in ("both", "ni"):
            defs += f"    def __r{nm}__(self, o):\n        return N{u}(o * 10 + self.v)\n\n"
    defs += (f"    def __eq__(self, o):\n        if isinstance(o, N{u}):\n            return self.v == o.v\n        return NotImplemented\n\n"
             f"    def __lt__(self, o):\n        if isinstance(o, N{u}):\n            return self.v < o.v\n        return NotImplemented\n\n"
             f"    def __le__(self, o):\n        return self.v <= o.v\n\n"
             f"class M{u}:\n    def __init__(self, v):\n        self.v = v\n\n    def __r{ops[0][1]}__(self, o):\n        return ('M.r', o.v, self.v)\n\n"
             f"    def __gt__(self, o):\n        return self.v > o.v\n")
    body = [f"x{u} = N{u}({a})", f"y{u} = N{u}({b})", f"m{u} = M{u}({a + b})"]
    exprs = []
    for sym, nm in ops:
        exprs += [f"(x{u} {sym} y{u})"]
        if modes[sym] != "ni":
            exprs += [f"(x{u} {sym} {b})", f"((x{u} {sym} y{u}) {sym} {a})"]
        if modes[sym] in ("both", "ni"):
            exprs += [f"({a} {sym} y{u})"]
    exprs += [f"(x{u} {ops[0][0]} m{u})", f"(x{u} == y{u})", f"(x{u} < y{u})", f"(x{u} <= y{u} <= x{u})", f"(x{u} == N{u}({a}))",
              f"(x{u} < m{u})", f"(x{u} is x{u})", f"(x{u} is not y{u})"]
    rng.shuffle(exprs)
    exprs = exprs[: rng.randint(4, 9)]
    # comparisons that go through object's default methods (rejected by the tracer: not intrinsic) come last
    if rng.random() < 0.4:
        exprs += rng.sample([f"(x{u} != y{u})", f"(x{u} > y{u})", f"(x{u} >= y{u})"], 1)
    for e in exprs:
        body.append(f"record({e})")
    return {"family": "operators", "defs": defs, "body": body}


def snip_containers(rng, u):
    vals = _ints(rng, rng.randint(3, 6), 0, 9)
    t = tuple(_ints(rng, 3, 0, 9))
    a, b = _ints(rng, 2, 1, 4)
    n = len(vals)
    body = [f"l{u} = {vals}", f"t{u} = {t}", f"d{u} = {{'a': {a}, 'b': {b}, {a}: 'x', **{{'c': {vals[0]}}}}}"]
    st = [f"record([*l{u}, *t{u}, {a}])", f"record((l{u}[0], l{u}[-1], l{u}[{rng.randrange(n)}], t{u}[{rng.randrange(3)}]))",
          f"record(l{u}[{rng.randint(0, 2)}:{rng.randint(2, n)}])", f"record(l{u}[::{rng.choice([1, 2, -1])}])", f"record(l{u}[-{rng.randint(1, n)}:])",
          f"record(t{u}[1:])", f"record((d{u}['a'], d{u}[{a}], d{u}['c']))", f"record(d{u})", f"record({{**d{u}, 'z': 0}})",
          f"record([x * {a} for x in l{u} if x % 2 == {b % 2}])", f"record([(i, x) for i, x in enumerate(l{u})])",
          f"record([p + q for p, q in zip(l{u}, t{u})])", f"record({{x: x * x for x in t{u} if x != {t[0]}}})" if len(set(t)) == len(t) else f"record({{i: x for i, x in enumerate(t{u})}})",
          f"record([k for k in d{u}])", f"record([(k, v) for k, v in d{u}.items()])", f"record(d{u}.get('q', {a}))", f"record(list(d{u}.keys()))",
          f"record((len(l{u}), len(t{u}), len(d{u}), len('abc')))", f"record((min(l{u}), max(l{u}), max({a}, {b}, 3), min(t{u})))",
          f"record(list(range({a}, {a + 4}, {b})))", f"record(tuple(l{u}))", f"record(list(t{u}))", f"record(l{u} + [{a}])", f"record(l{u} * 2)",
          f"h{u}, *r{u} = l{u}\nrecord((h{u}, r{u}))", f"*i{u}, z{u} = l{u}\nrecord((i{u}, z{u}))",
          f"p{u}, (q{u}, *s{u}), w{u} = 1, (2, 3, 4), 5\nrecord((p{u}, q{u}, s{u}, w{u}))", f"fa{u}, *fb{u}, fc{u} = t{u}\nrecord((fa{u}, fb{u}, fc{u}))",
          f"for e{u} in l{u}:\n    record(e{u} + {a})", f"for ia{u}, (ib{u}, ic{u}) in enumerate(zip(l{u}, t{u})):\n    record((ia{u}, ib{u} * ic{u}))",
          f"for ka{u} in range({b}):\n    for kb{u} in range(2):\n        record((ka{u}, kb{u}))",
          f"record([[y * x for y in range(2)] for x in range({b + 1})])", f"record((all([x > 0 for x in t{u}]), any([x > 5 for x in l{u}])))",
          f"record(({a}, [{b}, ({a},)], {{'k': [1, 2]}}, None, True, 2.5, 'str'))", f"record('a{{}}b{{}}'.format({a}, {b}))"]
    rng.shuffle(st)
    body += st[: rng.randint(5, 10)]
    return {"family": "containers", "defs": "", "body": body}


def snip_control(rng, u):
    a, b, c = _ints(rng, 3, 0, 9)
    names = [f"va{u}", f"vb{u}", f"vc{u}"]
    body = [f"va{u} = {a}", f"vb{u} = {b}", f"vc{u} = {c}"]
    for j in range(rng.randint(2, 4)):
        k = rng.randrange(5)
        if k == 0:
            body.append(f"if {_boolexpr(rng, names, 2)}:\n    record({_intexpr(rng, names, 2)})\nelif {_boolexpr(rng, names, 1)}:\n    record('elif')\nelse:\n    record(('else', {_intexpr(rng, names, 1)}))")
        elif k == 1:
            body.append(f"record({_intexpr(rng, names, 3)})")
        elif k == 2:
            body.append(f"record(({_boolexpr(rng, names, 2)}, {_boolexpr(rng, names, 2)}))")
        elif k == 3:
            body.append(f"for q{u}_{j} in range({rng.randint(0, 3)}):\n    if q{u}_{j} {rng.choice(CMP_OPS)} {rng.randint(0, 2)}:\n        record(q{u}_{j} + {_intexpr(rng, names, 1)})\n    else:\n        record('other')")
        else:
            body.append(f"record(T({_intexpr(rng, names, 1)} {rng.choice(['and', 'or'])} {_intexpr(rng, names, 1)}))")
    fn = (f"def sel{u}(x, lim={b}):\n    if x > lim:\n        return 'big'\n    elif x == lim:\n        return 'eq'\n    return 'small'\n")
    body.append(f"record((sel{u}({a}), sel{u}({b}), sel{u}({c}, lim={a})))")
    return {"family": "control", "defs": fn, "body": body}


# ---- comprehensions -------------------------------------------------------------------------------

COMP_CLAUSES = ["{x} % 2 == 0", "{x} % 3 == 0", "{x} % 2 == 1", "{x} > {a}", "{x} < {b}", "{x} != {a}", "{x} % 3 != 1",
                "({x} & 1) == 0", "{x} >= 0", "{x} < 0", "not {x} % 4", "{a} < {x} <= {b}", "{x} * {x} > {b}", "True", "False",
                "({x} % 2 == 0 or {x} > {b})", "isinstance({x}, int)"]


def _comp_ifs(rng, x, n=None):
    """0..3 `if` clauses over the variable x (random thresholds: early clauses often reject what a later one accepts)"""
    n = rng.choice([0, 1, 1, 2, 2, 2, 3, 3]) if n is None else n
    out = ""
    for _ in range(n):
        out += " if " + rng.choice(COMP_CLAUSES).format(x=x, a=rng.randint(0, 5), b=rng.randint(4, 11))
    return out


def _comp_source(rng, u):
    """(iterable expression, target, scalar variable usable in conditions, element expressions)"""
    k = rng.randrange(9)
    a, b = rng.randint(0, 3), rng.randint(6, 14)
    if k == 0:
        return f"range({b})", "x", "x", ["x", "x * x", f"x + {a}", "(x, x % 3)"]
    if k == 1:
        return f"range({a}, {b + 6}, {rng.choice([1, 2, 3])})", "x", "x", ["x", f"x - {a}", "[x, -x]"]
    if k == 2:
        return f"cl{u}", "x", "x", ["x", "x * 2", "(x,)"]
    if k == 3:
        return f"ct{u}", "x", "x", ["x", f"x % {a + 2}", "x + 1"]
    if k == 4:
        return f"cd{u}.items()", "k, v", "v", ["k", "v", "(k, v)", "v * k"]
    if k == 5:
        return f"enumerate(cl{u})", "i, x", rng.choice(["i", "x"]), ["i", "x", "(i, x)", "i * x"]
    if k == 6:
        return f"zip(cl{u}, ct{u})", "p, q", rng.choice(["p", "q"]), ["p + q", "(p, q)", "p * q"]
    if k == 7:
        return f"enumerate(zip(ct{u}, cl{u}))", "i, (p, q)", rng.choice(["i", "p", "q"]), ["(i, p, q)", "i + p * q"]
    return f"cd{u}", "k", "k", ["k", f"cd{u}[k]", f"(k, cd{u}[k])"]


def snip_comprehension(rng, u):
    """single-`for` list / dict comprehensions (the forms the tracer supports) with 0..3 filters over every kind of
    iterable, nested comprehensions whose inner iterable depends on the outer variable, results used in len / indexing /
    unpacking / folds, comprehensions inside module-level helpers, local functions and lambdas"""
    n = rng.randint(5, 9)
    vals = rng.sample(range(0, 20), n)
    tvals = tuple(rng.sample(range(0, 15), rng.randint(3, 6)))
    keys = rng.sample(range(1, 16), rng.randint(3, 6))
    defs = (f"def fold{u}(l):\n    return 0 if len(l) == 0 else l[0] + fold{u}(l[1:])\n\n\n"
            f"def pick{u}(n, m, lo=0):\n    return [x for x in range(n) if x % m == 0 if x >= lo]\n\n\n"
            f"def table{u}(n):\n    return {{x: [y for y in range(x){_comp_ifs(rng, 'y', 2)}] for x in range(n){_comp_ifs(rng, 'x', 1)}}}\n\n\n"
            f"def both{u}(seq, a, b):\n    return [e for e in seq if e % a == 0 if e % b == 0]\n")
    body = [f"cl{u} = {vals}", f"ct{u} = {tvals}", f"cd{u} = {{{', '.join(f'{k}: {(k * 7) % 11}' for k in keys)}}}"]
    st = []
    for _ in range(rng.randint(4, 7)):
        it, tg, var, elts = _comp_source(rng, u)
        elt = rng.choice(elts)
        comp = f"[{elt} for {tg} in {it}{_comp_ifs(rng, var)}]"
        use = rng.randrange(8)
        if use <= 2:
            st.append(f"record({comp})")
        elif use == 3:
            st.append(f"record(len({comp}))")
        elif use == 4:
            st.append(f"record(({comp} + [99])[0])\nrecord(({comp} + [98])[-1])")
        elif use == 5:
            j = len(st)
            st.append(f"ua{u}_{j}, *ub{u}_{j} = {comp} + [77]\nrecord((ua{u}_{j}, ub{u}_{j}))")
        elif not any(c in elt for c in "(["):      # scalar elements: folds
            st.append(f"record(fold{u}({comp}))" if use == 6 else f"record((max({comp} + [-1]), len({comp}[1:])))")
        else:
            st.append(f"record(({comp}, len({comp}[1:])))")
    # dict comprehensions (unique keys)
    for _ in range(rng.randint(1, 3)):
        it = rng.choice([f"range({rng.randint(5, 13)})", f"cl{u}", f"ct{u}"]) if len(set(tvals)) == len(tvals) else f"range({rng.randint(5, 13)})"
        st.append(f"record({{x: x * {rng.randint(1, 4)} for x in {it}{_comp_ifs(rng, 'x')}}})")
    st.append(f"record({{k: v for k, v in cd{u}.items(){_comp_ifs(rng, rng.choice(['k', 'v']))}}})")
    st.append(f"record({{v: k for k, v in enumerate(ct{u}){_comp_ifs(rng, 'k')}}})" if len(set(tvals)) == len(tvals) else f"record({{i: i for i in range(4)}})")
    # nested comprehensions: the inner iterable depends on the outer variable
    st.append(f"record([[x * y for y in range(x){_comp_ifs(rng, 'y')}] for x in range({rng.randint(3, 6)}){_comp_ifs(rng, 'x')}])")
    st.append(f"record([len([y for y in cl{u} if y > x{_comp_ifs(rng, 'y', 1)}]) for x in ct{u}{_comp_ifs(rng, 'x', 1)}])")
    st.append(f"record([z for z in [x + 1 for x in range(10){_comp_ifs(rng, 'x')}]{_comp_ifs(rng, 'z')}])")
    # helpers, local functions, lambdas
    a, b = rng.choice([2, 3]), rng.choice([2, 3, 4, 5])
    st.append(f"record((pick{u}({rng.randint(8, 16)}, {a}), pick{u}(12, {b}, lo={rng.randint(1, 6)}), both{u}(range(25), {a}, {b}), both{u}(cl{u}, 2, 3)))")
    st.append(f"record(table{u}({rng.randint(3, 6)}))")
    st.append(f"lf{u} = lambda n, m: [x for x in range(n) if x % m != 0{_comp_ifs(rng, 'x', 1)}]\nrecord((lf{u}(10, 2), lf{u}(9, 3)))")
    st.append(f"def loc{u}(seq, lim):\n    return {{e: [d for d in range(1, e + 1) if e % d == 0 if d != 1 if d != e] for e in seq if e > lim if e % 2 == 0}}\nrecord(loc{u}(range(13), {rng.randint(0, 5)}))")
    rng.shuffle(st)
    body += st[: rng.randint(8, 14)]
    return {"family": "comprehension", "defs": defs, "body": body}


def snip_comprehension_multi(rng, u):
    """forms the tracer is expected to reject (several `for` clauses in one comprehension, set comprehensions, generator
    expressions): ONE such statement per program so that a rejection hides nothing; if a future tracer accepts them the
    values must be CPython's"""
    n, m = rng.randint(3, 6), rng.randint(2, 5)
    k = rng.randrange(6)
    if k == 0:
        st = f"record([(x, y) for x in range({n}){_comp_ifs(rng, 'x', rng.randint(0, 2))} for y in range(x){_comp_ifs(rng, 'y', rng.randint(0, 2))}])"
    elif k == 1:
        st = f"record([x * y for x in range({n}) for y in ({m}, {n}, 1) if x != y if (x + y) % 2 == 0])"
    elif k == 2:
        st = f"record({{(x, y): x + y for x in range({n}) if x % 2 == 0 for y in range({m}) if y > x}})"
    elif k == 3:
        st = f"record(sorted({{x % {m} for x in range({n + 6}){_comp_ifs(rng, 'x')}}}))"
    elif k == 4:
        st = f"record(list(x * 2 for x in range({n + 4}){_comp_ifs(rng, 'x')}))"
    else:
        st = f"record([c for row in [[r * {m} + c for c in range({m})] for r in range({n})] for c in row{_comp_ifs(rng, 'c')}])"
    return {"family": "comprehension-multi", "defs": "", "body": [st]}


def check_comprehensions(ctx: Ctx):
    """systematic part: every ordered pair / many triples of filter clauses over a fixed range, for list and dict
    comprehensions - packed into few traced programs (all accepted), compared with CPython value by value"""
    pool = ["x % 2 == 0", "x % 3 == 0", "x > 4", "x < 9", "x != 6", "x % 2 == 1", "True", "False"]
    combos = [()] + [(a,) for a in pool] + [(a, b) for a in pool for b in pool]
    rng = ctx.rng
    combos += [tuple(rng.choice(pool) for _ in range(3)) for _ in range(ctx.scale(25, 200))]
    cases, meta = [], []
    for cl in combos:
        ifs = "".join(f" if {c}" for c in cl)
        for kind, src in (("list", f"record([x for x in range(15){ifs}])"), ("dict", f"record({{x: x + 1 for x in range(15){ifs}}})"),
                          ("nested", f"record([[y for y in range(x){ifs.replace('x', 'y')}] for x in (3, 7, 12){ifs}])")):
            if kind == "nested" and len(cl) != 2:
                continue
            cases.append({"defs": "", "body": [src]})
            meta.append((kind, cl, src))
    res = run_cases(cases, chunk=35)
    bad = 0
    for (kind, cl, src), case, r in zip(meta, cases, res):
        v = verdict(r)
        ctx.case(key=("comp", kind, cl), nontrivial=len(cl) >= 2, kind=f"comprehension:{kind}:{len(cl)}-ifs",
                 sample={"stmt": src, "verdict": v} if len(cl) == 3 else None)
        if v == "diff":
            if report_diff(ctx, f"comprehension:{kind}:" + " if ".join(cl),
                           f"`{src}`: CPython {val_of(r, 'py')}, tracer {val_of(r, 'co')}", case, r):
                bad += 1
        elif v != "same":
            ctx.dist[f"comprehension:{kind}:{v}"] += 1
    ctx.obligation("differential correspondence: list / dict / nested comprehensions with every ordered pair (and random triples) of filter clauses over range(15) evaluate to CPython's value",
                   bad == 0, detail=f"{len(cases)} comprehensions, {bad} differing")


# ---- name resolution ------------------------------------------------------------------------------
# The SAME name exists at several levels (builtins, module globals, cells of closures created outside and inside
# traced code, class attributes, parameters, comprehension variables, nonlocal / global declarations) with a
# different value at each level, so every mistake in the lookup order changes a recorded value.


def scoping_templates(rng, u):
    G, C, C2, CA, P, L, D, E = rng.sample(range(2, 95), 8)
    n, m, w = f"n{u}", f"m{u}", f"w{u}"
    t = {}
    # closures created at module level (outside traced code): cell vs module global of the same name
    t["outside-closure-vs-global"] = (
        f"{n} = {G}\n\n\ndef mk{u}({n}):\n    def f(x):\n        return x * 1000 + {n}\n    return f\n\n\n"
        f"def mkl{u}({n}):\n    return lambda x: (x, {n})\n\n\ncf{u} = mk{u}({C})\ncg{u} = mk{u}({C2})\nlam{u} = mkl{u}({D})\n",
        [f"record((cf{u}(1), cg{u}(2), lam{u}(3), {n}))"])
    t["outside-closure-two-deep"] = (
        f"{n} = {G}\n{m} = {D}\n\n\ndef a{u}({n}):\n    def b({m}):\n        def c(x):\n            return (x, {n}, {m})\n        return c\n    return b\n\n\n"
        f"c1{u} = a{u}({C})({C2})\nc2{u} = a{u}({P})({L})\n\n\ndef rd{u}():\n    return ({n}, {m})\n",
        [f"record((c1{u}(1), c2{u}(2), rd{u}(), {n}, {m}))"])
    t["outside-closure-mixed-free-names"] = (
        f"{n} = {G}\n{m} = {D}\n\n\ndef mk{u}({n}):\n    def f(x):\n        return (x, {n}, {m})\n    return f\n\n\nmx{u} = mk{u}({C})\n",
        [f"record(mx{u}(1))"])
    t["outside-lambda-default-and-cell"] = (
        f"{n} = {G}\n\n\ndef mk{u}({n}):\n    return lambda x, d={n}: (x, d, {n})\n\n\nld{u} = mk{u}({C})\nlg{u} = lambda x, d={n}: (x, d, {n})\n",
        [f"record((ld{u}(1), ld{u}(1, 2), lg{u}(3)))"])
    t["outside-closure-cell-named-like-builtin"] = (
        f"def mkb{u}(hex, oct={E}):\n    def f(x):\n        return (x, hex, oct)\n    return f\n\n\nbf{u} = mkb{u}({C})\n\n\ndef pb{u}(ord):\n    return ord + 1\n",
        [f"record((bf{u}(1), pb{u}({P})))"])
    t["global-named-like-builtin"] = (
        f"chr = {G}\n\n\ndef rb{u}():\n    return chr\n\n\ndef mkc{u}(chr):\n    return lambda: chr\n\n\nbc{u} = mkc{u}({C})\n",
        [f"record((rb{u}(), bc{u}(), chr))"])
    t["bound-method-and-class-attribute"] = (
        f"{n} = {G}\n\n\nclass S{u}:\n    {n} = {CA}\n\n    def __init__(self, v):\n        self.v = v\n\n    def g(self):\n        return ({n}, self.{n}, self.v)\n\n"
        f"    def p(self, {n}):\n        return ({n}, self.{n})\n\n    def d(self, x={n}):\n        return x\n\n    lam = staticmethod(lambda: {n})\n\n\n"
        f"bm{u} = S{u}({C}).g\nbp{u} = S{u}({C2}).p\n",
        [f"so{u} = S{u}({D})", f"record((bm{u}(), bp{u}({P}), so{u}.g(), so{u}.p({L}), so{u}.d(), S{u}.lam(), S{u}.{n}, {n}))"])
    t["subclass-attribute-shadowing"] = (
        f"{n} = {G}\n\n\nclass A{u}:\n    {n} = {CA}\n\n    def r(self):\n        return (self.{n}, {n})\n\n\nclass B{u}(A{u}):\n    {n} = {C}\n\n\nclass C{u}(B{u}):\n    pass\n",
        [f"record((A{u}().r(), B{u}().r(), C{u}().r(), A{u}.{n}, B{u}.{n}, C{u}.{n}))"])
    t["instance-attribute-shadows-class-attribute"] = (
        f"class I{u}:\n    {n} = {CA}\n\n    def __init__(self):\n        self.{n} = {D}\n\n    def r(self):\n        return (self.{n}, I{u}.{n})\n",
        [f"record(I{u}().r())"])
    t["functools-partial"] = (
        f"import functools\n\n{n} = {G}\n\n\ndef pf{u}(a, {n}, k={n}):\n    return (a, {n}, k)\n\n\npp{u} = functools.partial(pf{u}, {C})\npk{u} = functools.partial(pf{u}, k={C2})\n",
        [f"record((pp{u}({P}), pk{u}(1, 2)))"])
    t["module-default-captured-before-rebinding"] = (
        f"{n} = {G}\n\n\ndef df{u}(x, d={n}):\n    return (x, d, {n})\n\n\n{n} = {C}\n",
        [f"record((df{u}(1), df{u}(1, 2), {n}))"])
    # closures created inside traced code
    t["inside-closure-vs-global"] = (
        f"{n} = {G}\n",
        [f"def mki{u}({n}):\n    def f(x):\n        return (x, {n})\n    return f", f"record((mki{u}({C})(1), mki{u}({C2})(2), {n}))"])
    t["inside-closure-two-deep"] = (
        f"{n} = {G}\n{m} = {D}\n",
        [f"def ai{u}({n}):\n    def b({m}):\n        def c(x):\n            return (x, {n}, {m})\n        return c\n    return b",
         f"record((ai{u}({C})({C2})(1), ai{u}({P})({L})(2), {n}, {m}))"])
    t["inside-local-shadows-global-of-helper"] = (
        f"{w} = {G}\n\n\ndef hw{u}():\n    return {w}\n",
        [f"{w} = {L}", f"def lw{u}():\n    return {w}", f"record((hw{u}(), lw{u}(), {w}, (lambda: {w})()))"])
    t["inside-default-refers-to-shadowed-name"] = (
        f"{n} = {G}\n",
        [f"def od{u}({n}):\n    def f(x, d={n}):\n        return (x, d, {n})\n    return f", f"record((od{u}({C})(1), od{u}({C2})(1, 2)))",
         f"gl{u} = lambda x, d={n}: (x, d)", f"record(gl{u}(3))"])
    t["parameter-shadows-global-and-builtin"] = (
        f"{n} = {G}\n\n\ndef ps{u}({n}, len={E}):\n    return ({n}, len)\n\n\ndef pg{u}():\n    return ({n}, len([1, 2]))\n",
        [f"record((ps{u}({P}), ps{u}({L}, 4), pg{u}()))"])
    t["comprehension-variable-then-global-read"] = (
        f"{n} = {G}\n\n\ndef cv{u}(k):\n    return ([{n} * k for {n} in range(3)], {n})\n",
        [f"record(cv{u}(2))"])
    t["comprehension-variable-named-like-global"] = (
        f"{n} = {G}\n{m} = {D}\n\n\ndef cw{u}(k):\n    return {{{n}: [{m} + {n} for {m} in range({n})] for {n} in range(k)}}\n\n\ndef cr{u}():\n    return ({n}, {m})\n",
        [f"record((cw{u}(3), cr{u}(), [{n} * 2 for {n} in range(3)]))"])
    t["comprehension-variable-at-top-level-of-traced-function"] = (
        f"{n} = {G}\n", [f"record(([{n} for {n} in ({C}, {C2})], {n}))"])
    t["comprehension-variable-shadows-parameter"] = (
        f"def cp{u}({n}):\n    return ([{n} + 1 for {n} in range(3)], {n})\n",
        [f"record(cp{u}({P}))"])
    t["comprehension-reads-enclosing-levels"] = (
        f"{n} = {G}\n{m} = {D}\n\n\ndef ce{u}({m}):\n    q = {C}\n    return [(x, {n}, {m}, q) for x in range(2) if x != {n} if {m} > 0]\n",
        [f"record((ce{u}({P}), [(x, {n}, {m}) for x in range(2)]))"])
    t["nonlocal-declaration"] = (
        f"{n} = {G}\n\n\ndef nl{u}({n}):\n    def inner():\n        nonlocal {n}\n        return {n} + 1\n    return (inner(), {n})\n",
        [f"record((nl{u}({P}), {n}))", f"def nli{u}({n}):\n    def inner():\n        nonlocal {n}\n        return {n} + 2\n    return inner()", f"record(nli{u}({L}))"])
    t["global-declaration"] = (
        f"{n} = {G}\n\n\ndef gd{u}({m}):\n    global {n}\n    return ({n}, {m})\n\n\ndef gm{u}({m}):\n    def inner():\n        global {n}\n        return {n}\n    return (inner(), {m})\n",
        [f"record((gd{u}({P}), gm{u}({L})))"])
    t["recursive-local-function-and-self-name"] = (
        f"def down{u}(k):\n    return {G}\n",
        [f"def down{u}(k):\n    return [k] if k <= 0 else [k] + down{u}(k - 1)", f"record(down{u}(3))"])
    t["method-vs-global-function-of-same-name"] = (
        f"def val{u}():\n    return {G}\n\n\nclass M{u}:\n    def val{u}(self):\n        return {CA}\n\n    def both(self):\n        return (val{u}(), self.val{u}())\n",
        [f"record(M{u}().both())"])
    return t


def snip_scoping(rng, u):
    t = scoping_templates(rng, u)
    name = rng.choice(sorted(t))
    defs, body = t[name]
    return {"family": "scoping:" + name, "defs": defs, "body": body}


def check_scoping(ctx: Ctx):
    """every name-resolution template, every run (values random), each compared with CPython"""
    cases, names = [], []
    for rep in range(ctx.scale(2, 8)):
        t = scoping_templates(ctx.rng, 9000 + rep)
        for name in sorted(t):
            cases.append({"defs": t[name][0], "body": t[name][1], "solo": True})
            names.append(name)
    res = run_programs([make_program(c["defs"], c["body"]) for c in cases])
    bad = 0
    for name, case, r in zip(names, cases, res):
        v = verdict(r)
        ctx.case(key=("scoping", name, case["defs"]), nontrivial=v == "same", kind=f"scoping:{v}",
                 sample={"template": name, "main": case["body"][-1][:120], "verdict": v} if v == "same" else None)
        ctx.dist[f"scoping:{name}:{v}"] += 1
        if v == "diff":
            if report_diff(ctx, f"scoping:{name}", f"name resolution ({name}): `{case['body'][-1][:140]}` evaluates to {val_of(r, 'py')} in CPython and to {r['co'][1][:1]} in the tracer",
                           case, r):
                bad += 1
    ctx.obligation("differential correspondence: name resolution with the same name at several levels (builtins, globals, cells of closures created outside / inside traced code, class attributes, parameters, comprehension variables, nonlocal/global) evaluates like CPython or is rejected",
                   bad == 0, detail=f"{len(cases)} programs, {bad} differing")


# ---- operator dispatch on class hierarchies -------------------------------------------------------
# `__op__` / `__rop__` defined at ANY level (own body, parent, grandparent, mixin, alias of an inherited function
# object), operands in both orders, every operator; the MRO tables handed to the Lean model are read off the
# real classes (defined natively by CPython in the harness process).

HIER_SHAPES = {
    "chain": [("A", []), ("B", ["A"]), ("C", ["B"])],
    "mixin-first": [("A", []), ("M", []), ("C", ["M", "A"])],
    "mixin-last": [("A", []), ("M", []), ("C", ["A", "M"])],
    "chain-mixin": [("A", []), ("B", ["A"]), ("M", []), ("C", ["M", "B"])],
    "diamond": [("A", []), ("B", ["A"]), ("M", ["A"]), ("C", ["B", "M"])],
}


def hier_case(k, shape, methods, left, right, sym, nm):
    """methods: {(class letter, 'op'|'rop'): 'n' | 'v' | 'alias'}.  Returns (case, lean request tail) or None"""
    op, rop = f"__{nm}__", f"__r{nm}__"
    src, mid = "", k * 100
    for cls, bases in HIER_SHAPES[shape]:
        body = ""
        for role, name in (("op", op), ("rop", rop)):
            how = methods.get((cls, role))
            if how in ("n", "v"):
                mid += 1
                ret = "NotImplemented" if how == "n" else str(mid)
                body += f"    def {name}(self, o, _i={mid}):\n        note('m{mid}')\n        return {ret}\n\n"
            elif how == "alias" and bases:
                body += f"    {name} = {bases[-1]}{k}.{name}\n\n"
        src += f"class {cls}{k}" + (f"({', '.join(b + str(k) for b in bases)})" if bases else "") + ":\n" + (body or "    pass\n\n") + "\n"
    ns = {"note": lambda s_: None}
    try:
        exec(src, ns)      # plain CPython classes (no cohdl involved): only to read the MROs
    except (AttributeError, TypeError):
        return None        # alias of a method no ancestor has / inconsistent MRO
    L, R = ns[f"{left}{k}"], ns[f"{right}{k}"]
    for c in set(L.__mro__[:-1]) | set(R.__mro__[:-1]):
        for name in (op, rop):
            if name in vars(c) and not inspect.isfunction(vars(c)[name]):
                return None    # alias of something found on the metaclass (`A.__or__` is `type.__or__`): not a method definition

    def table(cls):
        rows = []
        for c in cls.__mro__[:-1]:
            own = []
            for num, name in ((1, op), (2, rop)):
                if name in vars(c):
                    own.append(f"{num}:{vars(c)[name].__defaults__[0]}")
            rows.append(",".join(own) or "-")
        return "/".join(rows)

    results = []
    for c in set(L.__mro__[:-1]) | set(R.__mro__[:-1]):
        for name in (op, rop):
            if name in vars(c):
                f = vars(c)[name]
                i = f.__defaults__[0]
                r = "n" if "NotImplemented" in f.__code__.co_names else f"v{i}"
                if f"{i}:{r}" not in results:
                    results.append(f"{i}:{r}")

    def found(cls, name):
        for c in cls.__mro__[:-1]:
            if name in vars(c):
                return vars(c)[name].__defaults__[0]
        return None
    lean = f"{int(L is R)} {int(L is not R and issubclass(R, L))} 1 2 {table(L)} {table(R)} {','.join(sorted(results)) or '-'}"
    case = {"defs": src, "body": [f"record({left}{k}() {sym} {right}{k}())"], "solo": False}
    return case, lean, found(L, op), found(R, rop)


def _hier_token(r, side, lid, rid):
    x = r[side]
    calls = "".join("l" if t == f"m{lid}" else ("r" if t == f"m{rid}" else "?") for t in x[2] if t.startswith("m")) or "-"
    v = val_of(r, side)
    if v == "err":
        return f"{calls} err"
    if isinstance(v, list) and len(v) == 2 and v[0] == "int":
        return f"{calls} v{v[1]}"
    return f"{calls} ?{repr(v)[:30]}"


def hier_configs(ctx):
    """systematic part (reflected method defined in every subset of the classes, left method value / NotImplemented,
    every operand pair incl. reversed) + random part (NotImplemented reflected methods, aliases, forward methods at
    lower levels)"""
    rng = ctx.rng
    out = []
    for shape, classes in HIER_SHAPES.items():
        letters = [c for c, _ in classes]
        pairs = [("A", "C"), ("C", "A")] + ([("A", "B"), ("B", "C")] if "B" in letters else []) + ([("M", "C")] if "M" in letters else [])
        for mask in range(1 << len(letters)):
            for lop in "nv":
                methods = {("A", "op"): lop}
                for i, c in enumerate(letters):
                    if mask >> i & 1:
                        methods[(c, "rop")] = "v"
                for pr in pairs:
                    if ctx.quick and rng.random() < 0.5 and not (pr == ("A", "C") and lop == "v"):
                        continue
                    out.append((shape, dict(methods), pr))
    for _ in range(ctx.scale(80, 600)):
        shape = rng.choice(sorted(HIER_SHAPES))
        letters = [c for c, _ in HIER_SHAPES[shape]]
        methods = {}
        for c in letters:
            for role in ("op", "rop"):
                how = rng.choice([None, None, "v", "v", "n", "alias"])
                if how:
                    methods[(c, role)] = how
        out.append((shape, methods, (rng.choice(letters), rng.choice(letters))))
    return out


def check_hierarchy(ctx: Ctx):
    cases, meta, reqs = [], [], []
    for k, (shape, methods, (left, right)) in enumerate(hier_configs(ctx), start=1):
        sym, nm = BIN_OPS[k % len(BIN_OPS)]
        hc = hier_case(k, shape, methods, left, right, sym, nm)
        if hc is None:
            continue
        case, lean, lid, rid = hc
        cases.append(case)
        meta.append((shape, methods, left, right, sym, lid, rid))
        reqs.append(lean)
    mirror = lean_io.query("C10", ["hier " + q for q in reqs])
    spec = lean_io.query("C10", ["cpyhier " + q for q in reqs])
    for c, mo in zip(cases, mirror):
        c["solo"] = " err " in mo + " "
    res = run_cases(cases, chunk=30)
    bad_spec = bad_model = viol = 0
    for case, (shape, methods, left, right, sym, lid, rid), mo, sp, r in zip(cases, meta, mirror, spec, res):
        mo, prio = mo.rsplit(" ", 1)
        if sym == "|" and lid is None and prio == "0":
            mo = "- err"      # `type.__or__` found through the metaclass (see check_binop)
        py, co = _hier_token(r, "py", lid, rid), _hier_token(r, "co", lid, rid)
        where = ",".join(f"{c}.{'__op__' if role == 'op' else '__rop__'}={how}" for (c, role), how in sorted(methods.items()))
        ctx.case(key=("hier", shape, where, left, right, sym), nontrivial=prio == "1" or left != "A", kind=f"hierarchy:{shape}:prio={prio}",
                 sample={"shape": shape, "methods": where, "expr": case["body"][0], "cpython": py, "tracer": co} if prio == "1" else None)
        if py != sp:
            bad_spec += 1
            ctx.report("spec:cpyHier", f"Lean cpyHier differs from real CPython: {shape} [{where}] `{left}() {sym} {right}()`: spec `{sp}`, CPython `{py}`",
                       {"theorem": "C10.dispatch_hier_equiv", "source": make_program(case["defs"], case["body"])}, no_failing_input=True)
        v = verdict(r)
        if v == "diff":
            viol += 1
            inherited = prio == "1" and (right, "rop") not in methods
            sig = "binop-hierarchy:inherited-reflected-method-has-no-priority" if inherited else f"binop-hierarchy:{shape}:{where}:{left}{sym}{right}"
            report_diff(ctx, sig, f"{shape} hierarchy with [{where}]: `{left}() {sym} {right}()` is `{py}` in CPython (calls, value) and `{co}` in the tracer"
                        + (" - the right operand's class INHERITS a reflected method different from the left class's, CPython asks it first" if inherited else ""),
                        case, r)
        elif co != mo:
            bad_model += 1
            ctx.report("mirror:dispatchHier", f"Lean dispatchHier differs from the tracer: {shape} [{where}] `{left}() {sym} {right}()`: model `{mo}`, tracer `{co}`, CPython `{py}`",
                       {"correspondence": "dispatchHier = ast.BinOp dispatch on class hierarchies", "source": make_program(case["defs"], case["body"])}, no_failing_input=True)
    n = len(cases)
    ctx.obligation("spec validation: Lean cpyHier (MRO lookup + cpyBinOp) = real CPython on class hierarchies (chain depth 3, mixin first/last, chain+mixin, diamond), methods at every level, both operand orders, all operators",
                   bad_spec == 0, detail=f"{n} hierarchies, {bad_spec} differences")
    ctx.obligation("correspondence: tracer BinOp dispatch = Lean dispatchHier (priority decided by MRO lookup + identity) on the same hierarchies",
                   bad_model == 0 and viol == 0, detail=f"{n} hierarchies, {bad_model} model differences, {viol} property failures")


def snip_hierarchy(rng, u):
    """the same hierarchies inside the generated-program stream (several expressions over one hierarchy)"""
    for _ in range(20):
        shape = rng.choice(sorted(HIER_SHAPES))
        letters = [c for c, _ in HIER_SHAPES[shape]]
        methods = {("A", "op"): rng.choice("vvn")}
        for c in letters:
            for role in ("op", "rop"):
                how = rng.choice([None, None, "v", "v", "n", "alias"])
                if how and (c, role) not in methods:
                    methods[(c, role)] = how
        sym, nm = rng.choice(BIN_OPS)
        hc = hier_case(u, shape, methods, "A", "C", sym, nm)
        if hc is None:
            continue
        defs = hc[0]["defs"]
        ns = {"note": lambda s_: None}
        exec(defs, ns)
        body = []
        for left in letters:
            for right in letters:
                try:       # keep the expressions CPython can evaluate (a TypeError would end the program)
                    eval(f"{left}{u}() {sym} {right}{u}()", ns)
                except TypeError:
                    continue
                body.append(f"record({left}{u}() {sym} {right}{u}())")
        if body:
            rng.shuffle(body)
            return {"family": "hierarchy:" + shape, "defs": defs, "body": body[:8]}
    return snip_operators(rng, u)


SNIPPETS = [snip_call, snip_call, snip_call, snip_closure, snip_class, snip_operators, snip_containers, snip_control,
            snip_comprehension, snip_comprehension, snip_comprehension_multi, snip_scoping, snip_scoping, snip_hierarchy]


def first_diff_stmt(snip, r):
    """index of the first record whose value differs"""
    py, co = r["py"][1], r["co"][1]
    for i, (x, y) in enumerate(zip(py, co)):
        if x != y:
            return i, x, y
    return min(len(py), len(co)), None, None


def shrink_snippet(snip, r):
    """the statements of a snippet are independent `record(...)` statements after a few set-up statements:
    keep the set-up and the first record whose value differs (one confirmation run); fall back to the
    prefix up to that record"""
    if verdict(r) == "accepted-binding-error":
        i = len([st for st in snip["body"] if st.lstrip().startswith("record(")]) - 1
    else:
        i = first_diff_stmt(snip, r)[0]
    setup = [st for st in snip["body"] if "record(" not in st]
    recs = [st for st in snip["body"] if "record(" in st]
    if i >= len(recs) or any("\n" in st and "record(" in st and st.count("record(") > 0 and st.lstrip().startswith(("for", "if")) for st in recs):
        return snip, r
    for body in (setup + [recs[i]], [st for st in snip["body"] if "record(" not in st or recs.index(st) <= i]):
        cand = dict(snip, body=body)
        r2 = confirm(cand)
        if verdict(r2) in ("diff", "accepted-binding-error"):
            return cand, r2
    return snip, r


def classify(snip, r):
    """stable signature of a failing generated program: known defect shapes first, else family + normalised statement"""
    v = verdict(r)
    text = "\n".join(snip["body"])
    if v == "accepted-binding-error":
        if "multiple values for keyword argument" in r["py"][4]:
            return "call:duplicate-keyword-accepted"
        return "call:accepted-binding-error:" + re.sub(r"\d+", "N", snip["body"][-1])[:120]
    i, x, y = first_diff_stmt(snip, r)
    if y is not None and "'other', 'Value'" in repr(y):
        return "local-function-default-is-Value-wrapper"
    if x is not None and y is not None and repr(x).replace("'list'", "'tuple'") == repr(y).replace("'list'", "'tuple'") and "*" in text:
        return "starred-target:tuple-source-gives-tuple"
    return "program:" + snip["family"] + ":" + re.sub(r"\d+", "N", snip["body"][-1])[:120]


def check_programs(ctx: Ctx):
    rng = ctx.rng
    n_snip = ctx.scale(220, 2000)
    snips = []
    for u in range(n_snip):
        g = SNIPPETS[u % len(SNIPPETS)] if u < 2 * len(SNIPPETS) else rng.choice(SNIPPETS)
        snips.append(g(rng, u))
    res = run_programs([make_program(sn["defs"], sn["body"]) for sn in snips])
    stats = {"same": 0, "rejected": 0, "py-exc": 0, "diff": 0, "accepted-binding-error": 0}
    accepted = []
    failures = 0
    seen_sigs = set()
    for sn, r in zip(snips, res):
        v = verdict(r)
        stats[v] += 1
        ctx.dist[f"program:{sn['family'].split(':')[0]}:{v}"] += 1
        nrec = len(r["py"][1])
        ctx.case(key=("prog", make_program(sn["defs"], sn["body"])), nontrivial=(v == "same" and nrec >= 2) or v in ("py-exc", "rejected"),
                 kind="program:" + sn["family"].split(":")[0],
                 sample={"family": sn["family"], "main": sn["body"][:4], "verdict": v} if v == "same" else None)
        if v == "rejected":
            ctx.dist["tracer-rejects:" + r["co"][3] + ":" + re.sub(r"0x[0-9a-f]+|\d+", "N", r["co"][4])[:60]] += 1
        if v == "same":
            accepted.append(sn)
        if v in ("diff", "accepted-binding-error"):
            failures += 1
            pre_sig = classify(sn, r)
            if failures > 8 or pre_sig in seen_sigs:
                continue
            small, r2 = shrink_snippet(sn, r)
            sig = classify(small, r2)
            seen_sigs.add(pre_sig)
            seen_sigs.add(sig)
            if verdict(r2) == "accepted-binding-error":
                text = f"the tracer accepts a call that CPython rejects for binding reasons ({r2['py'][4]}): `{small['body'][-1]}`"
            else:
                i, x, y = first_diff_stmt(small, r2)
                text = f"generated program ({small['family']}): statement `{small['body'][-1][:160]}` evaluates to {x} in CPython and to {y} in the tracer"
            report_diff(ctx, sig, text, small, r2, {"family": small["family"]})
    # stage 2: several accepted snippets in one traced function / one compilation (interaction of scopes,
    # of the process-wide FunctionDefinition cache, of repeated instantiation)
    combos = []
    for _ in range(ctx.scale(25, 250)):
        if len(accepted) < 3:
            break
        pick = rng.sample(accepted, rng.randint(2, min(5, len(accepted))))
        combos.append(pick)
    res2 = run_programs([make_program("\n\n".join(p["defs"] for p in pick if p["defs"]), [st for p in pick for st in p["body"]]) for pick in combos])
    comb_bad = 0
    for pick, r in zip(combos, res2):
        v = verdict(r)
        ctx.dist[f"program:combined:{v}"] += 1
        ctx.case(key=("combo", tuple(p["body"][0] for p in pick)), nontrivial=v == "same", kind="program:combined")
        if v != "same":
            comb_bad += 1
            case = {"defs": "\n\n".join(p["defs"] for p in pick if p["defs"]), "body": [st for p in pick for st in p["body"]]}
            r = confirm(case)
            if verdict(r) != "same":
                fam = "+".join(sorted(set(p["family"].split(":")[0] for p in pick)))
                report_diff(ctx, f"program:combined:{fam}:{verdict(r)}",
                            f"snippets that agree with CPython one by one do not when traced together ({verdict(r)}): families {fam}", case, r)
    ctx.extra["program_stats"] = stats
    ctx.notes.append("generated whole programs: DIFFERENTIAL correspondence of the glue around the proved cores (closures, classes, super(), properties, "
                     "comprehensions, constructor emulation ... are NOT modelled in Lean); each program is evaluated by CPython 3.12 and by the tracer, values "
                     f"recorded through a pyeval probe.  Verdicts: {stats}; rejected programs are allowed by the property (reasons in input_distribution tracer-rejects:*).")
    ctx.obligation("differential correspondence (not a proof): generated programs over the supported constant-evaluable constructs evaluate to CPython's values or are rejected; binding errors are rejected",
                   stats["diff"] == 0 and stats["accepted-binding-error"] == 0 and comb_bad == 0,
                   detail=f"{len(snips)} programs ({stats}), {len(combos)} combined programs")




DIRECTED = [
    # (signature, text, defs, body, log_matters)
    ("call:duplicate-keyword-accepted",
     "`f(a=1, **{'a': 2})`: CPython raises TypeError (multiple values for keyword argument 'a'), the tracer silently keeps the last value",
     "def f(a, b=2):\n    return (a, b)\n", ["record(f(a=1, **{'a': 2}))"]),
    ("call:duplicate-keyword-accepted:double-star",
     "`f(**{'a': 1}, **{'a': 2})`: CPython raises TypeError (multiple values for keyword argument 'a'), the tracer silently keeps the last value",
     "def f(a, b=2):\n    return (a, b)\n", ["record(f(**{'a': 1}, **{'a': 2}))"]),
    ("local-function-default-is-Value-wrapper",
     "a default value of a function defined inside a traced function is bound to the tracer's internal `Value` wrapper instead of the value",
     "", ["def inner(x, k=5):\n    return (x, k)", "record(inner(1))"]),
    ("local-function-default-is-Value-wrapper:lambda",
     "a default value of a lambda defined inside a traced function is bound to the tracer's internal `Value` wrapper instead of the value",
     "", ["g = lambda x, y=2: (x, y)", "record(g(3))"]),
    ("return:statements-after-constant-return-are-traced",
     "statements behind a `return` that is taken for constant reasons are still traced: a pyeval call placed there runs although CPython never reaches it",
     "def f(x):\n    if x > 1:\n        return 1\n    record(('after', x))\n    return 2\n", ["record(f(5))"]),
    ("call:keyword-not-a-string-accepted",
     "`f(**{1: 2})`: CPython raises TypeError (keywords must be strings)",
     "def f(*a, **k):\n    return (a, len(k))\n", ["record(f(**{1: 2}))"]),
    ("tuple-display:starred",
     "`(*[1, 2], 3)` must be (1, 2, 3)",
     "", ["record((*[1, 2], 3))"]),
]


def check_directed(ctx: Ctx):
    """hand-written probes of every defect / suspicious glue path found while building this check: each has a
    stable signature (findings.d / fixes refer to them)"""
    cases = [{"defs": d[2], "body": d[3]} for d in DIRECTED]
    res = run_programs([make_program(c["defs"], c["body"]) for c in cases])
    bad = 0
    for (sig, text, _, _), case, r in zip(DIRECTED, cases, res):
        v = verdict(r)
        ctx.case(key=("directed", sig), nontrivial=True, kind="directed:" + v)
        if v in ("diff", "accepted-binding-error"):
            if report_diff(ctx, sig, text + f" (CPython: {r['py'][1] or r['py'][3:5]}, tracer: {r['co'][1]})", case, r):
                bad += 1
    ctx.obligation("directed probes of the glue defects found so far (duplicate keywords, local-function defaults, code behind a constant return, non-string keywords, starred tuple displays)",
                   bad == 0, detail=f"{len(cases)} probes, {bad} failing")


def run(ctx: Ctx):
    import time
    timing = {}
    for name, fn in (("binding", check_binding), ("local-binding", check_local_binding), ("split", check_split), ("boolop", check_boolop), ("chain", check_chain),
                     ("binop", check_binop), ("hierarchy", check_hierarchy), ("cmp", check_cmp), ("directed", check_directed), ("comprehensions", check_comprehensions), ("scoping", check_scoping), ("programs", check_programs)):
        t0 = time.time()
        fn(ctx)
        timing[name] = round(time.time() - t0, 1)
    ctx.extra["phase_seconds"] = timing


def replay_program(r):
    res = run_programs([r["source"]])[0]
    print("python:", res["py"])
    print("cohdl :", res["co"])
    v = verdict(res)
    print("verdict:", v)
    if v in ("diff", "accepted-binding-error"):
        return 1
    if v == "same" and res["py"][2] != res["co"][2] and r.get("log_matters"):
        return 1
    return 0


def replay(ctx, data):
    r = data["replay"]
    if r.get("kind") == "bind":
        return replay_bind(r)
    if r.get("kind") == "program":
        return replay_program(r)
    print("this replay names a broken correspondence / spec validation, re-run the check:", r)
    return 1
