"""C20 - AXI4-Lite register maps decode, mask and hand-shake correctly.

Tie: generated register-map layouts (offsets, arrays, nested register files, Word / MemWord / Register with
every field kind and notification kind, address ranges, read-only / write-only registers) are wrapped in
`axi4_light.base_entity` + `connect_addr_map` (and `addr_map_entity`) and compiled by /repo's compiler; the
emitted VHDL is executed by harness/vhdl_sim.py clock by clock under a protocol-conforming random AXI4-Lite
master (arbitrary per-channel delays, AW-before-W / W-before-AW / simultaneous, back-to-back transfers,
partial strobes, unmapped addresses, random ready toggling, hardware-side updates, mid-run reset).  Per clock
all five channels and the register-backed outputs are compared with the Lean model
`CohdlVerif.C20.step` (Props/C20.lean proves the handshake invariants for all schedules and the data-path
properties of that model); an independent protocol monitor checks the transaction log of the REAL trace
(valid held until ready, one response per request, no response without request).  A second, compile-free tie
evaluates the real `_flatten_` / `_contains_addr_` of many more layouts on every address against the model's
decode.
"""

import json
import os

from .common import Ctx, compile_many, fork_map, load_design_module, import_cohdl, InfraError
from . import lean_io
from .vhdl_sim import Design

M32 = 0xFFFFFFFF

# ------------------------------------------------------------------------------------------------
# layout generation
# ------------------------------------------------------------------------------------------------

FIELD_CLS = {("hw", "B"): "Field", ("hw", "U"): "UField", ("hw", "S"): "SField",
             ("mem", "B"): "MemField", ("mem", "U"): "MemUField", ("mem", "S"): "MemSField"}


def gen_regclass(rng, idx):
    """a reg32.Register subclass: non-overlapping fields of every kind + notifications"""
    fields = []
    pos = 0
    style = rng.choice(["mixed", "mixed", "bytes", "wide", "flags"])
    while pos < 32 and len(fields) < 6:
        if rng.random() < 0.3:
            pos += rng.choice([1, 2, 3, 4, 8])
            continue
        if style == "bytes":
            width = rng.choice([8, 8, 16, 4])
        elif style == "wide":
            width = rng.choice([12, 16, 20, 32])
        elif style == "flags":
            width = rng.choice([1, 1, 2, 8])
        else:
            width = rng.choice([1, 1, 2, 3, 4, 5, 7, 8, 9, 12, 16])
        width = min(width, 32 - pos)
        if width <= 0:
            break
        kind = rng.choice(["mem", "mem", "mem", "hw", "hw", "flag"]) if style != "flags" else rng.choice(["flag", "flag", "mem", "hw"])
        if kind == "flag":
            fields.append({"kind": "flag", "ty": "B", "lo": pos, "hi": pos, "bit": True, "default": 0})
            pos += 1
            continue
        ty = rng.choice(["B", "B", "U", "S"])
        bit = width == 1 and rng.random() < 0.7
        if width == 1 and not bit and ty != "B":
            bit = True
        default = 0
        if kind == "mem":
            if bit or ty == "B":
                default = rng.choice([0, 0, (1 << width) - 1])
            else:
                default = rng.choice([0, rng.randrange(1 << width)])
        fields.append({"kind": kind, "ty": ty, "lo": pos, "hi": pos + width - 1, "bit": bit, "default": default})
        pos += width
    if not fields:
        fields.append({"kind": "mem", "ty": "B", "lo": 0, "hi": 31, "bit": False, "default": 0})
    acc = rng.choice(["rw"] * 5 + ["ro", "wo"])
    return {"name": f"RC{idx}", "fields": fields, "access": acc,
            "pushR": rng.random() < 0.4, "pushW": rng.random() < 0.4,
            "flagR": rng.random() < 0.25, "flagW": rng.random() < 0.25}


def gen_spec(rng, lay):
    """what sits in one word: word / memword / register class"""
    r = rng.random()
    if r < 0.12:
        return {"k": "word", "variant": rng.choice(["Word", "UWord", "SWord"])}
    if r < 0.34 and not lay.get("no_io"):
        # reg32.Output / reg32.Input: a hardware signal of `width` bits at bit `off` of the word
        # (lsbs / msbs / explicit offset+padding / full width), widths and offsets cross byte lanes
        width = rng.choice([1, 3, 4, 7, 8, 8, 9, 12, 16, 20, 24, 31, 32])
        mode = "full" if width == 32 else rng.choice(["lsbs", "msbs", "explicit", "explicit"])
        off = {"lsbs": 0, "msbs": 32 - width, "full": 0}.get(mode)
        if off is None:
            off = rng.randint(0, 32 - width)
        return {"k": rng.choice(["output", "output", "input"]), "width": width, "off": off, "mode": mode}
    if r < 0.5:
        return {"k": "memword", "variant": rng.choice(["MemWord", "MemWord", "MemUWord", "MemSWord"]),
                "default": rng.choice([0, 0, rng.randrange(1 << 31)])}
    if lay["regclasses"] and rng.random() < 0.5:
        return {"k": "register", "cls": rng.randrange(len(lay["regclasses"]))}
    lay["regclasses"].append(gen_regclass(rng, len(lay["regclasses"])))
    return {"k": "register", "cls": len(lay["regclasses"]) - 1}


def gen_members(rng, lay, words, depth, budget):
    """fill a region of `words` words with nodes; budget = [remaining flat registers]"""
    nodes = []
    cur = 0 if depth == 0 or words < 3 else rng.choice([0, 1, 1, 2])
    while cur < words and budget[0] > 0:
        if rng.random() < 0.35:
            cur += rng.choice([1, 1, 2, 3, 4])
            continue
        room = words - cur
        name = f"m{lay['counter']}"
        lay["counter"] += 1
        r = rng.random()
        if r < 0.2 and room >= 2 and budget[0] >= 2:
            n = rng.randint(2, min(4, budget[0], room))
            step = rng.choice([1, 1, 2]) if room >= 2 * n else 1
            # the slice end may leave a partial last step: len(range(a, e, s)) elements
            span = (n - 1) * step + 1
            end_w = min(room, span + rng.choice([0, 0, step - 1]))
            nodes.append({"t": "arr", "name": name, "off": cur * 4, "end": (cur + end_w) * 4, "step": step * 4,
                          "spec": gen_spec(rng, lay)})
            budget[0] -= n
            cur += end_w
        elif r < 0.4 and depth < 3 and room >= 2 and budget[0] >= 1:
            w = rng.randint(2, min(8 if depth else 14, room))
            # align sometimes so that nested offsets are non-trivial either way
            sub = gen_members(rng, lay, w, depth + 1, budget)
            if not sub:
                continue
            nodes.append({"t": "file", "name": name, "off": cur * 4, "words": w, "members": sub})
            cur += w
        elif r < 0.46 and room >= 1 and not lay.get("no_io"):
            w = rng.randint(1, min(4, room))
            nodes.append({"t": "memory", "name": name, "off": cur * 4, "words": w, "inline": True,
                          "mode": rng.choice(["IMMEDIATE", "IMMEDIATE", "SPLIT_WORDS"])})
            budget[0] -= 1
            cur += w
        elif r < 0.56 and room >= 1:
            w = rng.randint(1, min(6, room))
            nodes.append({"t": "range", "name": name, "off": cur * 4, "words": w, "tag": rng.randrange(1 << 32),
                          "access": rng.choice(["rw", "rw", "rw", "ro", "wo"])})
            budget[0] -= 1
            cur += w
        else:
            nodes.append({"t": "reg", "name": name, "off": cur * 4, "spec": gen_spec(rng, lay)})
            budget[0] -= 1
            cur += 1
    return nodes


def gen_spine(rng, lay, depth_left, budget, decode_only):
    """members of a register file that contains a chain of `depth_left` further nested register files, every one
    of them at a NON-ZERO offset inside its parent, with registers / arrays / ranges (decode-only layouts: also
    reg32.Memory) before and after the nested file at every level.  Returns (members, words)."""
    nodes = []
    cur = rng.choice([0, 0, 1, 2])

    def item(force=None):
        nonlocal cur
        name = f"m{lay['counter']}"
        lay["counter"] += 1
        kind = force or rng.choice(["reg", "reg", "arr", "range"] + (["memory"] if decode_only or not lay.get("no_io") else []))
        if kind == "arr" and budget[0] >= 2:
            n = rng.randint(2, min(3, budget[0]))
            step = rng.choice([1, 1, 2])
            end_w = (n - 1) * step + 1 + rng.choice([0, step - 1])
            nodes.append({"t": "arr", "name": name, "off": cur * 4, "end": (cur + end_w) * 4, "step": step * 4,
                          "spec": gen_spec(rng, lay)})
            budget[0] -= n
            cur += end_w
        elif kind == "range":
            w = rng.choice([1, 2, 3, 3, 5, 6])      # odd sizes at odd word offsets: the slow path of _contains_addr_
            nodes.append({"t": "range", "name": name, "off": cur * 4, "words": w, "tag": rng.randrange(1 << 32),
                          "access": rng.choice(["rw", "rw", "ro", "wo"])})
            budget[0] -= 1
            cur += w
        elif kind == "memory":
            w = rng.choice([1, 2, 3, 4, 5, 7]) if decode_only else rng.choice([1, 2, 3])
            nodes.append({"t": "memory", "name": name, "off": cur * 4, "words": w, "inline": not decode_only,
                          "mode": rng.choice(["IMMEDIATE", "IMMEDIATE", "SPLIT_WORDS"])})
            budget[0] -= 1
            cur += w
        else:
            nodes.append({"t": "reg", "name": name, "off": cur * 4, "spec": gen_spec(rng, lay)})
            budget[0] -= 1
            cur += 1
        cur += rng.choice([0, 0, 1])

    before = rng.randint(0, 1) if depth_left else 0
    for _ in range(before):
        if budget[0] > depth_left + 1:
            item()
    if depth_left:
        if cur == 0:
            cur = rng.randint(1, 3)
        sub, w = gen_spine(rng, lay, depth_left - 1, budget, decode_only)
        name = f"m{lay['counter']}"
        lay["counter"] += 1
        w += rng.choice([0, 0, 1])
        nodes.append({"t": "file", "name": name, "off": cur * 4, "words": w, "members": sub})
        cur += w + rng.choice([0, 1])
        if budget[0] > 0 and rng.random() < 0.5:
            item()
    else:
        item("reg")
        if budget[0] >= 2:
            item("arr")
        elif budget[0] >= 1:
            item()
    return nodes, cur


def gen_layout(rng, max_regs=9, aw=None, wrapper=None, deep=None, decode_only=False):
    """deep = number of register files nested inside each other under the root (3 or 4): the spine generator;
    None = the general generator (nesting up to 3, offsets often zero)"""
    lay = {"reset": rng.choice(["low", "low", "high", "none"]), "regclasses": [], "counter": 0,
           "wrapper": wrapper or "base_entity"}
    if lay["wrapper"] != "base_entity":
        lay["no_io"] = True      # Output / Input / Memory need a _config_ hook with the entity's ports
    if deep:
        while True:
            lay["regclasses"], lay["counter"] = [], 0
            members, words = gen_spine(rng, lay, deep, [rng.randint(4, max_regs)], decode_only)
            if words * 4 <= 512:
                break
        aw = max(6, (words * 4 - 1).bit_length())
        lay["aw"] = aw
        lay["root_words"] = rng.choice([None, (1 << aw) // 4])
        lay["root"] = members
    else:
        aw = aw or rng.choice([5, 6, 6, 7, 8])
        lay["aw"] = aw
        lay["root_words"] = rng.choice([None, (1 << aw) // 4])
        while True:
            lay["regclasses"], lay["counter"] = [], 0
            lay["root"] = gen_members(rng, lay, (1 << aw) // 4, 0, [rng.randint(3, max_regs)])
            if len(flat_regs(lay)) >= 2:
                break
    # drop register classes that ended up unused, renumber
    used = sorted({fr["spec"]["cls"] for fr in flat_regs(lay) if fr["spec"]["k"] == "register"})
    remap = {c: i for i, c in enumerate(used)}
    lay["regclasses"] = [dict(lay["regclasses"][c], name=f"RC{remap[c]}") for c in used]

    def fix(nodes):
        for n in nodes:
            if n["t"] == "file":
                fix(n["members"])
            elif n["t"] in ("reg", "arr") and n["spec"]["k"] == "register":
                n["spec"]["cls"] = remap[n["spec"]["cls"]]
    fix(lay["root"])
    del lay["counter"]
    return lay


def flat_regs(lay):
    """the intended flattening (the SPEC of the layout): every register with its python path expression, its
    global byte offset = sum of the enclosing files' offsets + own offset (+ j*step for array elements) and
    the chain of enclosing offsets.  Order = definition order (the Lean model expands entries the same way)."""
    out = []

    def walk(nodes, chain, path):
        for n in nodes:
            base = sum(chain)
            if n["t"] == "reg":
                out.append({"path": f"{path}.{n['name']}", "offset": base + n["off"], "bytes": 4, "spec": n["spec"],
                            "chain": list(chain), "off": n["off"], "n": 1, "step": 0, "first": True, "node": n})
            elif n["t"] == "arr":
                cnt = len(range(n["off"], n["end"], n["step"]))
                for j in range(cnt):
                    out.append({"path": f"{path}.{n['name']}[{j}]", "offset": base + n["off"] + j * n["step"], "bytes": 4,
                                "spec": n["spec"], "chain": list(chain), "off": n["off"], "n": cnt, "step": n["step"],
                                "first": j == 0, "node": n})
            elif n["t"] == "range":
                out.append({"path": f"{path}.{n['name']}", "offset": base + n["off"], "bytes": 4 * n["words"],
                            "spec": {"k": "range", "tag": n["tag"], "access": n["access"]}, "chain": list(chain),
                            "off": n["off"], "n": 1, "step": 0, "first": True, "node": n})
            elif n["t"] == "memory":
                out.append({"path": f"{path}.{n['name']}", "offset": base + n["off"], "bytes": 4 * n["words"],
                            "spec": {"k": "memory", "mode": n.get("mode", "IMMEDIATE"), "inline": n.get("inline", False)}, "chain": list(chain),
                            "off": n["off"], "n": 1, "step": 0, "first": True, "node": n})
            else:
                walk(n["members"], chain + [n["off"]], f"{path}.{n['name']}")
    walk(lay["root"], [], "self")
    return out


def reg_desc(lay, fr):
    """model descriptor of one flat register: kind code, access, default, masks, notifications, tag"""
    sp = fr["spec"]
    d = {"kind": 0, "readable": 1, "writable": 1, "dflt": 0, "mem": 0, "hw": 0, "flag": 0,
         "pushR": 0, "pushW": 0, "flagR": 0, "flagW": 0, "tag": 0}
    if sp["k"] == "word":
        d["kind"] = 0
    elif sp["k"] == "memword":
        d["kind"] = 1
        d["dflt"] = sp["default"]
    elif sp["k"] == "output":
        d["kind"], d["readable"] = 4, 0
        d["mem"] = ((1 << sp["width"]) - 1) << sp["off"]
    elif sp["k"] == "input":
        d["kind"], d["writable"] = 5, 0
        d["hw"] = ((1 << sp["width"]) - 1) << sp["off"]
    elif sp["k"] == "memory":
        d["kind"] = 6
    elif sp["k"] == "range":
        d["kind"] = 3
        d["tag"] = sp["tag"]
        d["readable"] = int(sp["access"] != "wo")
        d["writable"] = int(sp["access"] != "ro")
    else:
        rc = lay["regclasses"][sp["cls"]]
        d["kind"] = 2
        d["readable"] = int(rc["access"] != "wo")
        d["writable"] = int(rc["access"] != "ro")
        for f in rc["fields"]:
            m = ((1 << (f["hi"] - f["lo"] + 1)) - 1) << f["lo"]
            d[f["kind"]] |= m
            if f["kind"] == "mem":
                d["dflt"] |= (f["default"] << f["lo"]) & m
        for k in ("pushR", "pushW", "flagR", "flagW"):
            d[k] = int(rc[k])
    return d


def lean_entries(lay):
    """token list `NENT <entry>*` of the line protocol"""
    frs = [fr for fr in flat_regs(lay) if fr["first"]]
    toks = [len(frs)]
    for fr in frs:
        d = reg_desc(lay, fr)
        toks += [d["kind"], len(fr["chain"])] + fr["chain"] + [fr["off"], fr["n"], fr["step"], fr["bytes"], d["readable"],
                                                               d["writable"], d["dflt"], d["mem"], d["hw"], d["flag"],
                                                               d["pushR"], d["pushW"], d["flagR"], d["flagW"], d["tag"]]
    return toks


# ------------------------------------------------------------------------------------------------
# cohdl source of a layout
# ------------------------------------------------------------------------------------------------

def field_decl(f):
    if f["kind"] == "flag":
        return f"reg32.FlagField[{f['lo']}]"
    cls = FIELD_CLS[(f["kind"], f["ty"])]
    width = f["hi"] - f["lo"] + 1
    sl = f"{f['lo']}" if f["bit"] else f"{f['hi']}:{f['lo']}"
    if f["kind"] == "hw":
        return f"reg32.{cls}[{sl}]"
    if f["bit"] or f["ty"] == "B":
        dv = "Null" if f["default"] == 0 else "Full"
    elif f["ty"] == "U":
        dv = str(f["default"])
    else:
        v = f["default"]
        dv = str(v - (1 << width) if v >> (width - 1) else v)
    return f"reg32.{cls}[{sl}, {dv}]"


def spec_type(lay, sp):
    if sp["k"] == "word":
        return f"reg32.{sp['variant']}"
    if sp["k"] == "memword":
        return f"reg32.{sp['variant']}"
    if sp["k"] == "output":
        return "reg32.Output"
    if sp["k"] == "input":
        return "reg32.Input"
    return lay["regclasses"][sp["cls"]]["name"]


def access_kw(acc):
    return {"rw": "", "ro": ", readonly=True", "wo": ", writeonly=True"}[acc]


def gen_source(lay):
    aw = lay["aw"]
    L = ["from __future__ import annotations", "import cohdl",
         "from cohdl import Port, Bit, BitVector, Unsigned, Signed, Signal, Null, Full", "from cohdl import std",
         "from cohdl.std.axi import axi4_light as axi", "from cohdl.std.reg import reg32", ""]
    for rc in lay["regclasses"]:
        L.append(f"class {rc['name']}(reg32.Register{access_kw(rc['access'])}):")
        for i, f in enumerate(rc["fields"]):
            L.append(f"    f{i}: {field_decl(f)}")
        if rc["pushR"]:
            L.append("    npr: reg32.PushOnNotify.Read")
        if rc["pushW"]:
            L.append("    npw: reg32.PushOnNotify.Write")
        if rc["flagR"]:
            L.append("    nfr: reg32.FlagOnNotify.Read")
        if rc["flagW"]:
            L.append("    nfw: reg32.FlagOnNotify.Write")
        L.append("")
    rng_count = [0]
    file_count = [0]

    def members(nodes, out):
        """emit nested classes first (into L), member annotations into `out`"""
        for n in nodes:
            if n["t"] == "reg":
                out.append(f"    {n['name']}: {spec_type(lay, n['spec'])}[{n['off']}]")
            elif n["t"] == "arr":
                out.append(f"    {n['name']}: reg32.Array[{spec_type(lay, n['spec'])}, {n['off']}:{n['end']}:{n['step']}]")
            elif n["t"] == "memory":
                out.append(f"    {n['name']}: reg32.Memory[{n['off']}:{n['off'] + 4 * n['words']}]")
            elif n["t"] == "range":
                cname = f"Rng{rng_count[0]}"
                rng_count[0] += 1
                L.extend([f"class {cname}(reg32.AddrRange, word_count={n['words']}{access_kw(n['access'])}):",
                          "    def _config_(self):",
                          f"        self.last_addr = Signal[Unsigned[{aw}]](Null)",
                          "        self.last_data = Signal[BitVector[32]](Null)",
                          "    def _on_read_relative_(self, addr):",
                          f"        return (Unsigned[32]({n['tag']}) + addr).bitvector",
                          "    def _on_write_relative_(self, addr, data, mask):",
                          "        self.last_addr <<= addr",
                          "        self.last_data <<= mask.apply(self.last_data, data)", ""])
                out.append(f"    {n['name']}: {cname}[{n['off']}]")
            else:
                sub = []
                members(n["members"], sub)
                cname = f"File{file_count[0]}"
                file_count[0] += 1
                L.append(f"class {cname}(reg32.RegFile, word_count={n['words']}):")
                L.extend(sub)
                L.append("")
                out.append(f"    {n['name']}: {cname}[{n['off']}]")

    root = []
    members(lay["root"], root)
    frs = flat_regs(lay)
    if lay["wrapper"] == "addr_map_entity":
        # upstream style (test_axilite_addr_map_entity_01): registers annotated on the entity itself; no hardware side
        L.append(f"class E(axi.addr_map_entity(addr_width={aw}{reset_kw(lay)})):")
        L.extend(root)
        return "\n".join(L) + "\n"
    wc = "" if lay["root_words"] is None else f", word_count={lay['root_words']}"
    L.append(f"class Root(reg32.AddrMap{wc}):")
    L.extend(root)
    L.append("    def _config_(self, ent):")
    L.append("        self.ent = ent")
    for j, fr in enumerate(frs):
        if fr["spec"]["k"] == "memword" and fr["spec"]["default"]:
            dv = fr["spec"]["default"]
            arg = f'"{dv:032b}"' if fr["spec"]["variant"] == "MemWord" else str(dv)
            L.append(f"        {fr['path']}._config_({arg})")
        elif fr["spec"]["k"] in ("output", "input"):
            sp = fr["spec"]
            port = f"ent.o_{j}" if sp["k"] == "output" else f"ent.hw_{j}"
            kw = {"lsbs": ", lsbs=True", "msbs": ", msbs=True", "full": "",
                  "explicit": f", offset={sp['off']}, padding={32 - sp['width'] - sp['off']}"}[sp["mode"]]
            L.append(f"        {fr['path']}._config_({port} if ent is not None else Signal[BitVector[{sp['width']}]](){kw})")
        elif fr["spec"]["k"] == "memory" and fr["spec"]["inline"]:
            L.append(f"        {fr['path']}._config_(Null, inline=True, mask_mode=reg32.Memory.MaskMode.{fr['spec']['mode']})")
    conc, seq, ports = [], [], []
    for j, fr in enumerate(frs):
        p, sp = fr["path"], fr["spec"]
        if sp["k"] == "output":
            ports.append(f"    o_{j} = Port.output(BitVector[{sp['width']}], default=Null)")
            continue
        if sp["k"] == "input":
            ports.append(f"    hw_{j} = Port.input(BitVector[{sp['width']}])")
            continue
        if sp["k"] == "memory":
            continue
        ports.append(f"    o_{j} = Port.output(BitVector[32])")
        if sp["k"] == "word":
            ports.append(f"    hw_{j} = Port.input(BitVector[32])")
            cast = {"Word": "", "UWord": ".unsigned", "SWord": ".signed"}[sp["variant"]]
            conc.append(f"{p}.raw <<= e.hw_{j}{cast}")
            conc.append(f"e.o_{j} <<= {p}.raw")
        elif sp["k"] == "memword":
            conc.append(f"e.o_{j} <<= {p}.raw")
        elif sp["k"] == "range":
            ports.append(f"    a_{j} = Port.output(Unsigned[{aw}])")
            conc.append(f"e.o_{j} <<= {p}.last_data")
            conc.append(f"e.a_{j} <<= {p}.last_addr")
        else:
            rc = lay["regclasses"][sp["cls"]]
            if any(f["kind"] == "hw" for f in rc["fields"]):
                ports.append(f"    hw_{j} = Port.input(BitVector[32])")
            if any(f["kind"] == "flag" for f in rc["fields"]):
                ports.append(f"    clr_{j} = Port.input(BitVector[32])")
            for i, f in enumerate(rc["fields"]):
                if f["kind"] == "hw":
                    src = f"e.hw_{j}[{f['lo']}]" if f["bit"] else f"e.hw_{j}[{f['hi']}:{f['lo']}]"
                    if not f["bit"] and f["ty"] != "B":
                        src += ".unsigned" if f["ty"] == "U" else ".signed"
                    conc.append(f"{p}.f{i} <<= {src}")
                elif f["kind"] == "flag":
                    seq.append(f"if e.clr_{j}[{f['lo']}]:")
                    seq.append(f"    {p}.f{i}.clear()")
            conc.append(f"e.o_{j} <<= {p}._to_bits_()")
            if rc["pushR"] or rc["pushW"] or rc["flagR"] or rc["flagW"]:
                ports.append(f"    n_{j} = Port.output(BitVector[4], default=Null)")
            if rc["flagR"] or rc["flagW"]:
                ports.append(f"    nclr_{j} = Port.input(BitVector[2])")
            for bit, key, attr in ((0, "pushR", "npr"), (1, "pushW", "npw"), (2, "flagR", "nfr"), (3, "flagW", "nfw")):
                if rc[key]:
                    conc.append(f"e.n_{j}[{bit}] <<= bool({p}.{attr})")
            if rc["flagR"]:
                seq.extend([f"if e.nclr_{j}[0]:", f"    {p}.nfr.clear()"])
            if rc["flagW"]:
                seq.extend([f"if e.nclr_{j}[1]:", f"    {p}.nfw.clear()"])
    L.append("    def _impl_concurrent_(self):")
    L.append("        e = self.ent")
    L.extend("        " + c for c in conc)
    if seq:
        L.append("    def _impl_sequential_(self):")
        L.append("        e = self.ent")
        L.extend("        " + c for c in seq)
    L.append("")
    L.append(f"class E(axi.base_entity(addr_width={aw}{reset_kw(lay)})):")
    L.extend(ports)
    L.append("    def architecture(self):")
    L.append("        self.interface_connection().connect_addr_map(Root(self))")
    return "\n".join(L) + "\n"


def reset_kw(lay):
    return {"low": "", "high": ", active_high_reset=True", "none": ", no_reset=True"}[lay["reset"]]


# ------------------------------------------------------------------------------------------------
# scenarios: a protocol-conforming master, fully pre-drawn (deterministic replay, minimisable)
# ------------------------------------------------------------------------------------------------

def gen_scenario(rng, lay, n_phases=None, size=None):
    frs = flat_regs(lay)
    aw = lay["aw"]
    mapped = []
    for fr in frs:
        mapped += list(range(fr["offset"], fr["offset"] + fr["bytes"]))
    all_addr = list(range(1 << aw))
    unmapped = sorted(set(all_addr) - set(mapped)) or all_addr

    def addr():
        r = rng.random()
        if r < 0.68:
            fr = rng.choice(frs)
            a = fr["offset"] + 4 * rng.randrange(fr["bytes"] // 4)
            return a + (rng.randrange(4) if rng.random() < 0.15 else 0)   # unaligned byte addresses select the same word
        if r < 0.9:
            return rng.choice(unmapped)
        return rng.randrange(1 << aw)

    def gap(style):
        if style == "b2b":
            return 0
        if style == "slow":
            return rng.randint(0, 6)
        return rng.choice([0, 0, 0, 1, 1, 2, 3, 5])

    def strb():
        return rng.choice([15, 15, 15, 0, 1, 2, 4, 8, 3, 12, 5, 10, 7, 14, rng.randrange(16)])

    def data():
        return rng.choice([rng.randrange(1 << 32), M32, 0x80000000 | rng.randrange(1 << 32), rng.randrange(1 << 32) & 0x0F0F0F0F])

    def pattern(n):
        mode = rng.choice(["always", "always", "random", "sparse", "never-early"])
        if mode == "always":
            return [1]
        if mode == "random":
            return [rng.randrange(2) for _ in range(n)]
        if mode == "sparse":
            return [int(rng.random() < 0.25) for _ in range(n)]
        return [0] * rng.randint(1, 6) + [1] * rng.randint(1, 3)

    phases = []
    for _ in range(n_phases or rng.choice([1, 1, 2])):
        style = rng.choice(["mixed", "mixed", "b2b", "slow"])
        order = rng.choice(["any", "any", "aw-first", "w-first", "same"])
        nw = rng.randint(0, size or 10)
        nr = rng.randint(0 if nw else 1, size or 10)
        writes = []
        for _ in range(nw):
            ga, gw = gap(style), gap(style)
            if order == "aw-first":
                gw = ga + rng.randint(1, 4)
            elif order == "w-first":
                ga = gw + rng.randint(1, 4)
            elif order == "same":
                gw = ga
            writes.append({"addr": addr(), "data": data(), "strb": strb(), "ga": ga, "gw": gw})
        reads = [{"addr": addr(), "g": gap(style)} for _ in range(nr)]
        T = 8 + 4 * (nw + nr) + sum(w["ga"] + w["gw"] for w in writes) + sum(r["g"] for r in reads)
        hw = []
        for _ in range(rng.randint(0, 2 + T // 6)):
            j = rng.randrange(len(frs))
            kind = rng.choice(["hw", "hw", "clr", "nclr"])
            val = rng.randrange(1 << 32) if kind != "nclr" else rng.randint(1, 3)
            hw.append({"clk": rng.randrange(T), "reg": j, "what": kind, "val": val})
        phases.append({"writes": writes, "reads": reads, "bready": pattern(T), "rready": pattern(T), "hw": hw,
                       "idle_payload": [rng.randrange(1 << 32) for _ in range(4)],
                       "clocks": T, "idle_after": rng.randint(0, 3),
                       "reset_after": rng.randint(1, 2) if lay["reset"] != "none" and rng.random() < 0.6 else 0})
    return {"start_reset": rng.randint(0, 2) if lay["reset"] != "none" else 0, "phases": phases}


def gen_sweep(rng, lay):
    """the strobe sweep: for EVERY register object of the layout (writable or not) a full write followed by
    writes with ALL 16 strobe patterns (shuffled, random data), each followed by a read of the same address, issued
    strictly one after the other; finally the same at an unmapped address.  Every register-backed output is compared
    after every clock, so a byte lane that changes without its strobe (or keeps its value with it) shows at the
    completing clock of that write."""
    frs = flat_regs(lay)
    writes, reads = [], []
    hw = [{"clk": 0, "reg": j, "what": "hw", "val": rng.randrange(1 << 32) | 0x01010101} for j in range(len(frs))]
    seq = [0]

    def w(a, dv, sb):
        writes.append({"addr": a, "data": dv, "strb": sb, "ga": 0, "gw": rng.choice([0, 0, 1]), "seq": seq[0]})
        seq[0] += 1

    def r(a):
        reads.append({"addr": a, "g": 0, "seq": seq[0]})
        seq[0] += 1

    mapped = set()
    for fr in frs:
        mapped |= set(range(fr["offset"], fr["offset"] + fr["bytes"]))
    targets = [fr["offset"] + 4 * rng.randrange(fr["bytes"] // 4) for fr in frs]
    unmapped = [a for a in range(0, 1 << lay["aw"], 4) if a not in mapped]
    if unmapped:
        targets.append(rng.choice(unmapped))
    for a in targets:
        w(a, rng.choice([M32, rng.randrange(1 << 32) | 0x81818181]), 15)
        r(a)
        strobes = list(range(16))
        rng.shuffle(strobes)
        for sb in strobes:
            w(a, rng.randrange(1 << 32), sb)
            r(a)
    T = 8 + 8 * (len(writes) + len(reads))
    ph = {"writes": writes, "reads": reads, "serial": True, "bready": rng.choice([[1], [1], [0, 1]]), "rready": rng.choice([[1], [1], [1, 0]]),
          "hw": hw, "idle_payload": [rng.randrange(1 << 32) for _ in range(4)], "clocks": T, "idle_after": 1, "reset_after": 0}
    return {"start_reset": 1 if lay["reset"] != "none" else 0, "phases": [ph], "sweep": True}


class _Chan:
    """one master-driven channel: valid is asserted after the transaction's gap and held, with stable payload,
    until the slave's ready is seen at a rising edge"""

    def __init__(self, items):
        self.items = items      # [(gap, payload)]
        self.idx = 0
        self.active = False
        self.wait = items[0][0] if items else 0
        self.allowed = len(items)       # serial phases release the transactions one by one

    def drive(self):
        if not self.active and self.idx < min(len(self.items), self.allowed):
            if self.wait == 0:
                self.active = True
            else:
                self.wait -= 1
        return self.active

    def payload(self):
        return self.items[self.idx][1]

    def handshake(self, ready):
        if self.active and ready:
            self.idx += 1
            self.active = False
            self.wait = self.items[self.idx][0] if self.idx < len(self.items) else 0
            return True
        return False

    def done(self):
        return self.idx >= len(self.items)


def has_port(lay, j, fr):
    """(hw, clr, n, nclr, a) ports of flat register j"""
    sp = fr["spec"]
    if lay["wrapper"] != "base_entity":
        return (False,) * 5
    if sp["k"] == "word":
        return (True, False, False, False, False)
    if sp["k"] in ("memword", "output", "memory"):
        return (False,) * 5
    if sp["k"] == "input":
        return (True, False, False, False, False)
    if sp["k"] == "range":
        return (False, False, False, False, True)
    rc = lay["regclasses"][sp["cls"]]
    kinds = {f["kind"] for f in rc["fields"]}
    notif = rc["pushR"] or rc["pushW"] or rc["flagR"] or rc["flagW"]
    return ("hw" in kinds, "flag" in kinds, notif, rc["flagR"] or rc["flagW"], False)


def simulate(task):
    """run one scenario on the emitted VHDL.  Returns the per-clock input tokens (for the model), the observed
    rows, and the verdicts of the protocol monitor on the real trace."""
    vhdl, lay, scn = task
    frs = flat_regs(lay)
    ports = [has_port(lay, j, fr) for j, fr in enumerate(frs)]
    nreg = len(frs)
    d = Design(vhdl)
    rst_active = {"low": 0, "high": 1, "none": None}[lay["reset"]]
    for p in ("axi_clk", "axi_awaddr", "axi_awprot", "axi_awvalid", "axi_wdata", "axi_wstrb", "axi_wvalid", "axi_bready",
              "axi_araddr", "axi_arprot", "axi_arvalid", "axi_rready"):
        d.set(p, 0)
    if rst_active is not None:
        d.set("axi_reset", 1 - rst_active)
    hwv = [0] * nreg
    for j, pp in enumerate(ports):
        if pp[0]:
            d.set(f"hw_{j}", 0)
        if pp[1]:
            d.set(f"clr_{j}", 0)
        if pp[3]:
            d.set(f"nclr_{j}", 0)
    d.initialise()
    rows, toks, errors, log = [], [], [], []
    mon = {"nAW": 0, "nW": 0, "nB": 0, "nAR": 0, "nR": 0, "b_hold": None, "r_hold": None}
    compare_regs = lay["wrapper"] == "base_entity"

    def fmt(v):
        return "-" if v is None else str(int(v))

    def sample():
        head = [d.get("axi_awready"), d.get("axi_wready"), d.get("axi_bvalid"), d.get("axi_arready"), d.get("axi_rvalid"),
                d.get("axi_rdata")]
        out = [fmt(v) for v in head]
        if compare_regs:
            for j, pp in enumerate(ports):
                sp = frs[j]["spec"]
                if sp["k"] == "output":
                    v = d.get(f"o_{j}")
                    cur = fmt(None if v is None else v << sp["off"])
                elif sp["k"] == "input":
                    cur = str(hwv[j] & (((1 << sp["width"]) - 1) << sp["off"]))
                elif sp["k"] == "memory":
                    cur = "0"       # content is observable through reads only
                else:
                    cur = fmt(d.get(f"o_{j}"))
                out += [cur, fmt(d.get(f"n_{j}")) if pp[2] else "0", fmt(d.get(f"a_{j}")) if pp[4] else "0"]
        return " ".join(out)

    def clock(rst, awv, awaddr, wv, wdata, wstrb, bready, arv, araddr, rready, clr, nclr):
        """one clock with the given inputs; returns the values of the slave outputs seen at the rising edge"""
        if rst_active is not None:
            d.set("axi_reset", rst_active if rst else 1 - rst_active)
        d.set("axi_awvalid", awv); d.set("axi_awaddr", awaddr)
        d.set("axi_wvalid", wv); d.set("axi_wdata", wdata); d.set("axi_wstrb", wstrb)
        d.set("axi_bready", bready)
        d.set("axi_arvalid", arv); d.set("axi_araddr", araddr)
        d.set("axi_rready", rready)
        for j, pp in enumerate(ports):
            if pp[0]:
                sp = frs[j]["spec"]
                d.set(f"hw_{j}", (hwv[j] >> sp["off"]) & ((1 << sp["width"]) - 1) if sp["k"] == "input" else hwv[j])
            if pp[1]:
                d.set(f"clr_{j}", clr[j])
            if pp[3]:
                d.set(f"nclr_{j}", nclr[j])
        d.settle()
        pre = {k: d.get("axi_" + k) for k in ("awready", "wready", "bvalid", "bresp", "arready", "rvalid", "rdata", "rresp")}
        d.clock("axi_clk")
        t = [int(rst), awv, awaddr, wv, wdata, wstrb, bready, arv, araddr, rready]
        for j, pp in enumerate(ports):
            t += [hwv[j] if pp[0] else 0, clr[j] if pp[1] else 0, nclr[j] if pp[3] else 0]
        toks.append(t)
        rows.append(sample())
        return pre

    zero = [0] * nreg
    for _ in range(scn["start_reset"]):
        clock(1, 0, 0, 0, 0, 0, 0, 0, 0, 0, zero, zero)
    for pi, ph in enumerate(scn["phases"]):
        aw_ch = _Chan([(w["ga"], w["addr"]) for w in ph["writes"]])
        w_ch = _Chan([(w["gw"], (w["data"], w["strb"])) for w in ph["writes"]])
        ar_ch = _Chan([(r["g"], r["addr"]) for r in ph["reads"]])
        nB = nR = 0
        idle = ph["idle_payload"]
        hw_at = {}
        for ev in ph["hw"]:
            hw_at.setdefault(ev["clk"], []).append(ev)
        k = 0
        limit = ph["clocks"] + 40
        mon_base = dict(mon)
        order = sorted([(w["seq"], "w") for w in ph["writes"]] + [(r["seq"], "r") for r in ph["reads"]]) if ph.get("serial") else None
        while k < limit:
            if order is not None:
                rel = [o[1] for o in order[: nB + nR + 1]]
                aw_ch.allowed = w_ch.allowed = rel.count("w")
                ar_ch.allowed = rel.count("r")
            done = aw_ch.done() and w_ch.done() and ar_ch.done() and nB == len(ph["writes"]) and nR == len(ph["reads"])
            if done and k >= min(ph["clocks"], 6):
                break
            clr, nclr = [0] * nreg, [0] * nreg
            for ev in hw_at.get(k, []):
                j = ev["reg"]
                if j >= nreg:
                    continue
                if ev["what"] == "hw":
                    hwv[j] = ev["val"]
                elif ev["what"] == "clr":
                    clr[j] = ev["val"]
                else:
                    nclr[j] = ev["val"]
            drain = k >= ph["clocks"]
            awv = aw_ch.drive()
            wv = w_ch.drive()
            arv = ar_ch.drive()
            awaddr = aw_ch.payload() if awv else idle[0] % (1 << lay["aw"])
            wdata, wstrb = w_ch.payload() if wv else (idle[1], idle[2] % 16)
            araddr = ar_ch.payload() if arv else idle[3] % (1 << lay["aw"])
            bready = 1 if drain else ph["bready"][k % len(ph["bready"])]
            rready = 1 if drain else ph["rready"][k % len(ph["rready"])]
            pre = clock(0, int(awv), awaddr, int(wv), wdata, wstrb, bready, int(arv), araddr, rready, clr, nclr)
            clkno = len(rows) - 1
            # ---- handshakes at this rising edge
            if aw_ch.handshake(pre["awready"] == 1):
                mon["nAW"] += 1
            if w_ch.handshake(pre["wready"] == 1):
                mon["nW"] += 1
            if ar_ch.handshake(pre["arready"] == 1):
                mon["nAR"] += 1
                log.append(("AR", clkno, araddr))
            # ---- protocol monitor on the slave-driven channels (the property, on the real trace)
            for ch, valid, ready, payload, cnt, req in (("B", pre["bvalid"], bready, (pre["bresp"],), "nB", None),
                                                        ("R", pre["rvalid"], rready, (pre["rdata"], pre["rresp"]), "nR", None)):
                hold = mon["b_hold" if ch == "B" else "r_hold"]
                if hold is not None:
                    if valid != 1:
                        errors.append({"rule": "valid_held_until_ready", "channel": ch, "clock": clkno,
                                       "text": f"{ch}VALID withdrawn before {ch}READY"})
                    elif payload != hold:
                        errors.append({"rule": "valid_held_until_ready", "channel": ch, "clock": clkno,
                                       "text": f"{ch} payload changed while {ch}VALID was waiting for {ch}READY"})
                if valid == 1:
                    outstanding = (min(mon["nAW"], mon["nW"]) - mon["nB"]) if ch == "B" else (mon["nAR"] - mon["nR"])
                    # requests completing at THIS edge cannot be answered before it
                    if ch == "B":
                        outstanding = min(mon["nAW"] - int(awv and pre["awready"] == 1), mon["nW"] - int(wv and pre["wready"] == 1)) - mon["nB"]
                    else:
                        outstanding = mon["nAR"] - int(arv and pre["arready"] == 1) - mon["nR"]
                    if outstanding <= 0:
                        errors.append({"rule": "no_response_without_request", "channel": ch, "clock": clkno,
                                       "text": f"{ch}VALID without an outstanding request"})
                    if any(x != 0 for x in payload[-1:]) :
                        errors.append({"rule": "response_okay", "channel": ch, "clock": clkno, "text": f"{ch}RESP is not OKAY"})
                if valid not in (0, 1):
                    errors.append({"rule": "defined", "channel": ch, "clock": clkno, "text": f"{ch}VALID undefined"})
                if valid == 1 and ready == 1:
                    mon[cnt] += 1
                    if ch == "B":
                        nB += 1
                        log.append(("B", clkno))
                    else:
                        nR += 1
                        log.append(("R", clkno, pre["rdata"]))
                    mon["b_hold" if ch == "B" else "r_hold"] = None
                elif valid == 1:
                    mon["b_hold" if ch == "B" else "r_hold"] = payload
            k += 1
        # ---- exactly once: every request of the phase answered, none twice
        for ch, got, want in (("B", mon["nB"] - mon_base["nB"], len(ph["writes"])), ("R", mon["nR"] - mon_base["nR"], len(ph["reads"]))):
            if got != want:
                errors.append({"rule": "one_response_per_request", "channel": ch, "clock": len(rows) - 1,
                               "text": f"{want} requests, {got} {ch} responses (phase {pi})"})
        for _ in range(ph["idle_after"]):
            pre = clock(0, 0, idle[0] % (1 << lay["aw"]), 0, idle[1], idle[2] % 16, 0, 0, idle[3] % (1 << lay["aw"]), 0, zero, zero)
            for ch in ("b", "r"):
                if pre[ch + "valid"] == 1:
                    errors.append({"rule": "no_response_without_request", "channel": ch.upper(), "clock": len(rows) - 1,
                                   "text": f"{ch.upper()}VALID without an outstanding request (idle bus)"})
        for _ in range(ph["reset_after"]):
            clock(1, 0, 0, 0, 0, 0, 0, 0, 0, 0, zero, zero)
        if ph["reset_after"]:
            mon["b_hold"] = mon["r_hold"] = None
    return {"toks": toks, "rows": rows, "errors": errors, "log": log}


def model_request(lay, toks, fixed=1):
    flat = []
    for t in toks:
        flat += t
    return "sim " + " ".join(str(x) for x in [fixed, lay["aw"]] + lean_entries(lay) + [len(toks)] + flat)


def model_rows(lay, answer):
    if answer == "bad-op":
        raise InfraError("C20 model driver rejected a sim request")
    rows = answer.split(";") if answer else []
    if lay["wrapper"] != "base_entity":
        rows = [" ".join(r.split(" ")[:6]) for r in rows]
    return rows


# ------------------------------------------------------------------------------------------------
# comparison, classification, minimisation
# ------------------------------------------------------------------------------------------------

HEAD_COLS = ["awready", "wready", "bvalid", "arready", "rvalid", "rdata"]


def legacy_layout(lay, knobs):
    """the layout as the UNPATCHED code understands it (used only to name a known defect precisely):
    'array'  - Array elements inside a nested RegFile are placed at array_offset + j*step (parent offsets lost)
    'access' - readonly / writeonly have no effect"""
    lay2 = json.loads(json.dumps(lay))
    if "access" in knobs:
        for rc in lay2["regclasses"]:
            rc["access"] = "rw"

        def fix(nodes):
            for n in nodes:
                if n["t"] == "range":
                    n["access"] = "rw"
                elif n["t"] == "file":
                    fix(n["members"])
        fix(lay2["root"])
    return lay2


def model_trace(lay, toks, knobs=()):
    """rows of the Lean model; knobs select the legacy behaviours (see legacy_layout)"""
    lay2 = legacy_layout(lay, knobs)
    ents = lean_entries(lay2)
    if "array" in knobs:
        # re-write the entries: arrays lose their chain
        frs = [fr for fr in flat_regs(lay2) if fr["first"]]
        ents = [len(frs)]
        for fr in frs:
            d = reg_desc(lay2, fr)
            chain = [] if fr["n"] > 1 or fr["node"]["t"] == "arr" else fr["chain"]
            ents += [d["kind"], len(chain)] + chain + [fr["off"], fr["n"], fr["step"], fr["bytes"], d["readable"], d["writable"],
                                                       d["dflt"], d["mem"], d["hw"], d["flag"], d["pushR"], d["pushW"], d["flagR"],
                                                       d["flagW"], d["tag"]]
    flat = []
    for t in toks:
        flat += t
    req = "sim " + " ".join(str(x) for x in [0 if "strobes" in knobs else 1, lay["aw"]] + ents + [len(toks)] + flat)
    return model_rows(lay, lean_io.query("C20", [req])[0])


def first_diff(real, model):
    for k, (a, b) in enumerate(zip(real, model)):
        if a != b:
            return k
    if len(real) != len(model):
        return min(len(real), len(model))
    return None


def describe_diff(lay, real_row, model_row):
    """(column class, column name, flat register index or None)"""
    ra, mo = real_row.split(" "), model_row.split(" ")
    for c, (x, y) in enumerate(zip(ra, mo)):
        if x != y:
            if c < 6:
                return ("handshake" if c < 5 else "read-value", HEAD_COLS[c], None, x, y)
            j, what = divmod(c - 6, 3)
            return (("reg-value", "notification", "range-addr")[what], ("value", "notify", "addr")[what], j, x, y)
    return ("shape", "row", None, real_row, model_row)


KNOB_SETS = [("strobes",), ("array",), ("access",), ("strobes", "array"), ("strobes", "access"), ("array", "access"),
             ("strobes", "array", "access")]

KNOB_TEXT = {"strobes": "Register._basic_write_ ignores the byte strobes (all MemFields / FlagFields of a field register are written)",
             "array": "reg32.Array inside a nested RegFile places its elements at array_offset + j*step, the offsets of the enclosing register files are lost",
             "access": "readonly= / writeonly= of register classes have no effect (the annotated class attributes _readable_ / _writable_ are overwritten with the type `bool` by std.Template)"}


def run_pair(vhdl, lay, scn):
    res = simulate((vhdl, lay, scn))
    mrows = model_trace(lay, res["toks"])
    return res, mrows


def fails(vhdl, lay, scn):
    try:
        res, mrows = run_pair(vhdl, lay, scn)
    except InfraError:
        raise
    except Exception:
        return True
    return bool(res["errors"]) or first_diff(res["rows"], mrows) is not None


def ddmin(items, test, budget):
    items = list(items)
    n = 2
    while len(items) >= 1 and budget[0] > 0:
        chunk = max(1, len(items) // n)
        reduced = False
        for i in range(0, len(items), chunk):
            cand = items[:i] + items[i + chunk:]
            budget[0] -= 1
            if test(cand):
                items = cand
                n = max(n - 1, 2)
                reduced = True
                break
            if budget[0] <= 0:
                break
        if not reduced:
            if chunk == 1:
                break
            n = min(len(items), n * 2)
    return items


def shrink_scenario(vhdl, lay, scn, budget=120):
    """delta debugging on phases, transactions and hardware events; then timing simplification"""
    budget = [budget]
    scn = json.loads(json.dumps(scn))

    def ok(s):
        budget[0] -= 1
        return fails(vhdl, lay, s)

    # phases
    for pi in range(len(scn["phases"]) - 1, -1, -1):
        if len(scn["phases"]) > 1:
            cand = dict(scn, phases=scn["phases"][:pi] + scn["phases"][pi + 1:])
            if ok(cand):
                scn = cand
    if scn["start_reset"]:
        cand = dict(scn, start_reset=0)
        if ok(cand):
            scn = cand
    for pi in range(len(scn["phases"])):
        for key in ("writes", "reads", "hw"):
            def test(items, pi=pi, key=key):
                ph = dict(scn["phases"][pi], **{key: items})
                return fails(vhdl, lay, dict(scn, phases=scn["phases"][:pi] + [ph] + scn["phases"][pi + 1:]))
            items = ddmin(scn["phases"][pi][key], test, budget)
            scn["phases"][pi] = dict(scn["phases"][pi], **{key: items})
        for simp in ({"bready": [1]}, {"rready": [1]}, {"idle_after": 0}, {"reset_after": 0}, {"idle_payload": [0, 0, 0, 0]}):
            ph = dict(scn["phases"][pi], **simp)
            cand = dict(scn, phases=scn["phases"][:pi] + [ph] + scn["phases"][pi + 1:])
            if budget[0] > 0 and cand != scn and ok(cand):
                scn = cand
        for key, gaps in (("writes", ("ga", "gw")), ("reads", ("g",))):
            for ti in range(len(scn["phases"][pi][key])):
                for g in gaps:
                    if scn["phases"][pi][key][ti][g] and budget[0] > 0:
                        cand = json.loads(json.dumps(scn))
                        cand["phases"][pi][key][ti][g] = 0
                        if ok(cand):
                            scn = cand
        T = 8 + 4 * (len(scn["phases"][pi]["writes"]) + len(scn["phases"][pi]["reads"])) + \
            sum(w["ga"] + w["gw"] for w in scn["phases"][pi]["writes"]) + sum(r["g"] for r in scn["phases"][pi]["reads"])
        cand = json.loads(json.dumps(scn))
        cand["phases"][pi]["clocks"] = T
        if budget[0] > 0 and ok(cand):
            scn = cand
    return scn


def scenario_summary(scn):
    out = []
    for ph in scn["phases"]:
        for w in ph["writes"]:
            out.append(f"W@{w['addr']:#x}={w['data']:#010x}/strb={w['strb']:04b}(aw+{w['ga']},w+{w['gw']})")
        for r in ph["reads"]:
            out.append(f"R@{r['addr']:#x}(+{r['g']})")
        for h in ph["hw"]:
            out.append(f"hw[{h['reg']}].{h['what']}={h['val']:#x}@{h['clk']}")
        if ph["reset_after"]:
            out.append("reset")
    return " ".join(out)


def report_failure(ctx, vhdl, lay, scn, src, origin):
    """a scenario on which the real design and the proved model (or the protocol monitor) disagree:
    minimise, classify, report"""
    small = shrink_scenario(vhdl, lay, scn, budget=ctx.scale(100, 200))
    res, mrows = run_pair(vhdl, lay, small)
    k = first_diff(res["rows"], mrows)
    frs = flat_regs(lay)
    if res["errors"]:
        e = res["errors"][0]
        cls, text = f"{e['rule']}:{e['channel']}", f"protocol monitor: {e['text']} at clock {e['clock']}"
        exp = obs = None
        clock = e["clock"]
    elif k is not None:
        real_row = res["rows"][k] if k < len(res["rows"]) else ""
        model_row = mrows[k] if k < len(mrows) else ""
        kind, col, j, obs, exp = describe_diff(lay, real_row, model_row)
        regk = frs[j]["spec"]["k"] if j is not None and j < len(frs) else "-"
        cls = f"{kind}:{col}:{regk}"
        where = f" of register {frs[j]['path']} @{frs[j]['offset']:#x}" if j is not None and j < len(frs) else ""
        text = f"clock {k}: {col}{where} is {obs}, the transaction-level semantics (Lean model C20.step) gives {exp}"
        clock = k
    else:
        return False   # not reproducible after shrinking (should not happen)
    # layout-level root cause: does the plain-Python decode of this layout already disagree with the declaration?
    root_cause = None
    try:
        dl = strip_flags(json.loads(json.dumps(lay)))
        dl["wrapper"] = "base_entity"
        dres = decode_check([dl])[0]
        if dres is not None and dres["kind"] == "offset":
            root_cause = offset_diagnosis(dl, dres)
        elif dres is not None and dres["kind"] == "rejected":
            root_cause = (f"layout-rejected:depth{max_depth(dl)}", f"_flatten_ rejects the layout: {dres['error']}")
    except InfraError:
        pass
    # does a known legacy behaviour explain the whole trace?
    explained = None
    if root_cause is None and k is not None and not res["errors"]:
        for knobs in KNOB_SETS:
            try:
                if first_diff(res["rows"], model_trace(lay, res["toks"], knobs)) is None:
                    explained = knobs
                    break
            except InfraError:
                pass
    if root_cause is not None:
        signature = root_cause[0]
        text = f"{root_cause[1]} [witness: {scenario_summary(small)}; {text}]"
    elif explained:
        signature = "legacy:" + "+".join(explained)
        text = "; ".join(KNOB_TEXT[x] for x in explained) + f" [witness: {scenario_summary(small)}; {text}]"
    else:
        signature = f"{cls}:{scenario_summary(small)}"[:300]
        text = f"{text} [scenario: {scenario_summary(small)}]"
    return ctx.report(signature, text,
                      {"origin": origin, "layout": lay, "scenario": small, "clock": clock, "expected": exp, "observed": obs,
                       "class": cls, "explained_by_legacy": list(explained) if explained else None,
                       "monitor_errors": res["errors"][:5], "design_source": src,
                       "registers": [{"path": fr["path"], "offset": fr["offset"], "bytes": fr["bytes"], "spec": fr["spec"]} for fr in frs]})


# ------------------------------------------------------------------------------------------------
# compile-free decode tie
# ------------------------------------------------------------------------------------------------

def strip_flags(lay):
    """SyncFlag objects need an entity under construction: the plain-Python decode tie uses layouts without
    FlagField / FlagOnNotify (they do not influence the decode)"""
    for rc in lay["regclasses"]:
        rc["fields"] = [f for f in rc["fields"] if f["kind"] != "flag"] or \
            [{"kind": "mem", "ty": "B", "lo": 0, "hi": 31, "bit": False, "default": 0}]
        rc["flagR"] = rc["flagW"] = False
    return lay


def decode_task(lay):
    """real `_flatten_` offsets and the real dispatch (`_contains_addr_` in list order, filtered by
    `_readable_` / `_writable_`) on every address"""
    import_cohdl()
    from cohdl import Unsigned
    try:
        mod = load_design_module(gen_source(lay))
        root = mod.Root(None)
        frs = flat_regs(lay)
        objs = [eval(fr["path"], {"self": root}) for fr in frs]
        ident = {id(o): j for j, o in enumerate(objs)}
        regs = root._flatten_()
        offsets = [o._global_offset_ for o in objs]
        unit = [o._unit_count_() for o in objs]
        rd = [r for r in regs if r._readable_]
        wr = [r for r in regs if r._writable_]
        table = []
        for a in range(1 << lay["aw"]):
            av = Unsigned[lay["aw"]](a)
            sel = []
            for lst in (rd, wr):
                hit = "-"
                for r in lst:
                    if r._contains_addr_(av):
                        hit = str(ident.get(id(r), "?"))
                        break
                sel.append(hit)
            table.append(f"r{sel[0]} w{sel[1]}")
        return {"ok": True, "offsets": offsets, "unit": unit, "table": " ".join(table), "listed": sorted(ident.get(id(r), -1) for r in regs)}
    except AssertionError as e:
        return {"ok": True, "rejected": f"AssertionError: {str(e)[:200]}"}


def max_depth(lay):
    return max((len(fr["chain"]) for fr in flat_regs(lay)), default=0)


def decode_check(lays):
    """for every layout: None when the real offsets and the real dispatch on every address agree with the
    model (whose absolute addresses are the sums of the DECLARED relative offsets), else a description"""
    real = fork_map(decode_task, lays, fresh=True, batch=8)
    reqs = []
    for lay in lays:
        ents = " ".join(str(x) for x in lean_entries(lay))
        reqs += [f"flat {ents}", f"decode {lay['aw']} {ents}"]
    ans = lean_io.query("C20", reqs)
    out = []
    for i, (lay, r) in enumerate(zip(lays, real)):
        frs = flat_regs(lay)
        if r[0] != "ok":
            raise InfraError("decode task failed: " + r[1])
        r = r[1]
        m_off, m_tab = ans[2 * i], ans[2 * i + 1]
        if "bad-op" in (m_off, m_tab):
            raise InfraError("C20 model driver rejected a flat/decode request")
        exp_off = [int(x) for x in m_off.split(" ")] if m_off else []
        # two independent computations of the declared absolute addresses: the Lean model (chain sums) and the
        # harness walk over its own layout description
        if exp_off != [fr["offset"] for fr in frs]:
            raise InfraError("C20: model and harness disagree about the declared addresses of a layout")
        if "rejected" in r:
            out.append({"kind": "rejected", "error": r["rejected"]})
        elif r["offsets"] != exp_off:
            j = next(j for j, (a, b) in enumerate(zip(r["offsets"], exp_off)) if a != b)
            out.append({"kind": "offset", "j": j, "observed": r["offsets"][j], "expected": exp_off[j]})
        elif r["table"] != m_tab:
            ra, mo = r["table"].split(" "), m_tab.split(" ")
            a = next(a for a in range(0, len(ra)) if ra[a] != mo[a]) // 2
            out.append({"kind": "table", "addr": a, "observed": " ".join(ra[2 * a: 2 * a + 2]), "expected": " ".join(mo[2 * a: 2 * a + 2]),
                        "real_table": r["table"]})
        else:
            out.append(None)
    return out


def shrink_layout_decode(lay, kind, budget=30):
    """greedy removal of nodes (at any depth) while the decode tie still fails in the same way"""
    lay = json.loads(json.dumps(lay))

    def paths(nodes, prefix=()):
        for k, n in enumerate(nodes):
            yield prefix + (k,)
            if n["t"] == "file":
                yield from paths(n["members"], prefix + (k,))

    def remove(l, path):
        l2 = json.loads(json.dumps(l))
        nodes = l2["root"]
        for k in path[:-1]:
            nodes = nodes[k]["members"]
        del nodes[path[-1]]
        return l2

    def valid(l):
        def ok(nodes):
            return all(n["t"] != "file" or (n["members"] and ok(n["members"])) for n in nodes)
        return len(flat_regs(l)) >= 1 and ok(l["root"])

    changed = True
    while changed and budget > 0:
        changed = False
        cands = [remove(lay, pth) for pth in sorted(paths(lay["root"]), key=len)]
        cands = [c for c in cands if valid(c)][:budget]
        if not cands:
            break
        budget -= len(cands)
        res = decode_check(cands)
        for c, r in zip(cands, res):
            if r is not None and r["kind"] == kind:
                lay = c
                changed = True
                break
    used = sorted({fr["spec"]["cls"] for fr in flat_regs(lay) if fr["spec"]["k"] == "register"})
    return lay


def offset_diagnosis(lay, res):
    frs = flat_regs(lay)
    j = res["j"]
    first = next(q for q, f in enumerate(frs) if f["node"] is frs[j]["node"])
    known = frs[j]["n"] > 1 and frs[j]["chain"] and res["observed"] == frs[j]["off"] + (j - first) * frs[j]["step"]
    sig = "legacy:array" if known else f"offset:{frs[j]['node']['t']}:depth{len(frs[j]['chain'])}"
    text = (KNOB_TEXT["array"] + " " if known else "") + \
        f"[register {frs[j]['path']} (nesting depth {len(frs[j]['chain'])}, enclosing offsets {frs[j]['chain']}, own offset {frs[j]['off']}) " \
        f"decodes at {res['observed']:#x}; the declared offsets add up to {res['expected']:#x}: accesses to the declared address miss it, " \
        f"accesses to {res['observed']:#x} hit it]"
    return sig, text


def decode_tie(ctx, n_layouts):
    rng = ctx.rng
    lays = []
    for i in range(n_layouts):
        if i % 2:
            lays.append(strip_flags(gen_layout(rng, max_regs=10, deep=rng.choice([3, 3, 4]), decode_only=True)))
        else:
            lays.append(strip_flags(gen_layout(rng, max_regs=10)))
    results = decode_check(lays)
    bad = 0
    for lay, res in zip(lays, results):
        frs = flat_regs(lay)
        ctx.case(key=("decode", json.dumps(lay, sort_keys=True)), nontrivial=any(fr["chain"] for fr in frs) or any(fr["n"] > 1 for fr in frs),
                 kind=f"decode-layout:depth{max_depth(lay)}", sample=None)
        ctx.dist["decode-addresses"] += 1 << lay["aw"]
        if res is None:
            continue
        bad += 1
        if bad > 3:
            continue
        lay = shrink_layout_decode(lay, res["kind"], budget=ctx.scale(30, 60))
        res = decode_check([lay])[0]
        frs = flat_regs(lay)
        regs_info = [{"path": fr["path"], "declared_address": fr["offset"], "bytes": fr["bytes"], "enclosing_offsets": fr["chain"]} for fr in frs]
        has_access = any(reg_desc(lay, fr)["readable"] == 0 or reg_desc(lay, fr)["writable"] == 0 for fr in frs)
        if res["kind"] == "rejected":
            ctx.report(f"layout-rejected:depth{max_depth(lay)}", f"a legal register-map layout (nesting depth {max_depth(lay)}) is rejected by _flatten_: {res['error']}",
                       {"origin": "decode-tie", "layout": lay, "design_source": gen_source(lay), "error": res["error"], "registers": regs_info})
        elif res["kind"] == "offset":
            sig, text = offset_diagnosis(lay, res)
            ctx.report(sig, text,
                       {"origin": "decode-tie", "layout": lay, "design_source": gen_source(lay), "register": frs[res["j"]]["path"],
                        "expected": res["expected"], "observed": res["observed"], "registers": regs_info})
        else:
            a, obs, exp = res["addr"], res["observed"], res["expected"]
            lay2 = legacy_layout(lay, ("access",))
            m2 = lean_io.query("C20", [f"decode {lay['aw']} " + " ".join(str(x) for x in lean_entries(lay2))])[0]
            if has_access and m2 == res["real_table"]:
                sig, pre = "legacy:access", KNOB_TEXT["access"] + " "
            else:
                hit = [x for x in (obs + " " + exp).replace("r", "").replace("w", "").split(" ") if x not in ("-", "?")]
                fr = frs[int(hit[0])] if hit else None
                rel = "" if fr is None else f":{fr['spec']['k']}:bytes{fr['bytes']}:{'aligned' if fr['offset'] % fr['bytes'] == 0 else 'unaligned'}:rel{a - fr['offset']}"
                sig, pre = f"decode{rel}", ""
            ctx.report(sig, pre + f"[address {a:#x}: the real dispatch selects `{obs}` (r=read w=write, index into the register list), "
                       f"offset <= addr < offset+count selects `{exp}`]",
                       {"origin": "decode-tie", "layout": lay, "design_source": gen_source(lay), "address": a, "expected": exp, "observed": obs,
                        "registers": regs_info})
    ctx.obligation("correspondence: real _flatten_ offsets and _contains_addr_ dispatch = model decode (declared absolute addresses) on every "
                   "address of every generated layout (nesting depth up to 4, non-zero offsets at every level)",
                   bad == 0, detail=f"{len(lays)} layouts, {bad} differing")


# ------------------------------------------------------------------------------------------------
# fixed probes (the three defect classes seen while building the check; they stay as regression probes)
# ------------------------------------------------------------------------------------------------

def _rc(fields, access="rw", **kw):
    return dict({"name": "RC0", "fields": fields, "access": access, "pushR": False, "pushW": False, "flagR": False, "flagW": False}, **kw)


def _phase(writes=(), reads=(), hw=()):
    ws = [{"addr": a, "data": dv, "strb": s, "ga": 0, "gw": 0} for a, dv, s in writes]
    rs = [{"addr": a, "g": 0} for a in reads]
    return {"writes": ws, "reads": rs, "bready": [1], "rready": [1], "hw": list(hw), "idle_payload": [0, 0, 0, 0],
            "clocks": 8 + 4 * (len(ws) + len(rs)), "idle_after": 1, "reset_after": 0}


def probes():
    f_mem = [{"kind": "mem", "ty": "B", "lo": 0, "hi": 7, "bit": False, "default": 0},
             {"kind": "mem", "ty": "U", "lo": 8, "hi": 15, "bit": False, "default": 0},
             {"kind": "flag", "ty": "B", "lo": 31, "hi": 31, "bit": True, "default": 0}]
    base = {"aw": 6, "reset": "low", "wrapper": "base_entity", "root_words": None}
    p1 = dict(base, regclasses=[_rc(f_mem)], root=[{"t": "reg", "name": "m0", "off": 0, "spec": {"k": "register", "cls": 0}}])
    s1 = {"start_reset": 1, "phases": [_phase(writes=[(0, 0x8000FFFF, 0b0001)], reads=[0])]}
    p2 = dict(base, regclasses=[], root=[{"t": "file", "name": "m0", "off": 16, "words": 4, "members": [
        {"t": "arr", "name": "m1", "off": 0, "end": 8, "step": 4, "spec": {"k": "memword", "variant": "MemWord", "default": 0}}]}])
    s2 = {"start_reset": 1, "phases": [_phase(writes=[(16, 0x12345678, 15)], reads=[16])]}
    p3 = dict(base, regclasses=[_rc(f_mem[:2], access="ro"), dict(_rc(f_mem[:2], access="wo"), name="RC1")],
              root=[{"t": "reg", "name": "m0", "off": 0, "spec": {"k": "register", "cls": 0}},
                    {"t": "reg", "name": "m1", "off": 4, "spec": {"k": "register", "cls": 1}}])
    s3 = {"start_reset": 1, "phases": [_phase(writes=[(0, 0x1234, 15), (4, 0x5678, 15)], reads=[0, 4])]}
    mw = {"k": "memword", "variant": "MemWord", "default": 0}
    p4 = dict(base, regclasses=[], root=[
        {"t": "reg", "name": "m0", "off": 0, "spec": dict(mw)},
        {"t": "file", "name": "m1", "off": 16, "words": 7, "members": [
            {"t": "file", "name": "m2", "off": 8, "words": 5, "members": [
                {"t": "file", "name": "m3", "off": 4, "words": 4, "members": [
                    {"t": "reg", "name": "m4", "off": 4, "spec": dict(mw)},
                    {"t": "arr", "name": "m5", "off": 8, "end": 16, "step": 4, "spec": dict(mw)}]}]}]}])
    # declared: m4 @ 16+8+4+4 = 32, m5[0] @ 36, m5[1] @ 40; 12 / 16 / 20 / 24 are unmapped
    s4 = {"start_reset": 1, "phases": [_phase(writes=[(32, 0x11111111, 15), (40, 0x22222222, 15), (16, 0x33333333, 15), (12, 0x44444444, 15)],
                                              reads=[32, 36, 40, 16, 12, 20, 24])]}
    # every reg32.Output placement: lsbs, msbs, explicit (crossing byte lanes), full width; an Input; an inline Memory
    import random as _random
    p5 = dict(base, regclasses=[], root=[
        {"t": "reg", "name": "m0", "off": 0, "spec": {"k": "output", "width": 8, "off": 0, "mode": "lsbs"}},
        {"t": "reg", "name": "m1", "off": 4, "spec": {"k": "output", "width": 8, "off": 24, "mode": "msbs"}},
        {"t": "reg", "name": "m2", "off": 8, "spec": {"k": "output", "width": 12, "off": 6, "mode": "explicit"}},
        {"t": "reg", "name": "m3", "off": 12, "spec": {"k": "output", "width": 32, "off": 0, "mode": "full"}},
        {"t": "reg", "name": "m4", "off": 16, "spec": {"k": "input", "width": 9, "off": 20, "mode": "explicit"}},
        {"t": "memory", "name": "m5", "off": 24, "words": 2, "inline": True, "mode": "IMMEDIATE"}])
    s5 = gen_sweep(_random.Random(20), p5)
    return [("strobes", p1, s1), ("array-in-file", p2, s2), ("access", p3, s3), ("deep-nesting", p4, s4), ("io-strobe-sweep", p5, s5)]


# ------------------------------------------------------------------------------------------------
# run / replay
# ------------------------------------------------------------------------------------------------

def _sim_task(t):
    return simulate(t)


def run(ctx: Ctx):
    rng = ctx.rng
    ctx.rule = ("register-map layouts generated as trees (registers, arrays, nested register files up to depth 4 with non-zero offsets at every level (spine generator), address ranges at unaligned word offsets, reg32.Memory in the decode tie; "
                "Word/MemWord variants, Register classes with Field/UField/SField/MemField/MemUField/MemSField/FlagField of random "
                "position and width, PushOnNotify/FlagOnNotify Read/Write, readonly/writeonly, reset polarity / no reset, "
                "base_entity+connect_addr_map or addr_map_entity); per layout several scenarios of a pre-drawn protocol-conforming "
                "master (per-channel gaps, AW/W order, back-to-back, partial strobes, unmapped and unaligned addresses, random READY "
                "patterns, hardware-side field updates and flag clears, mid-run reset).  One case = (layout, scenario); non-trivial = "
                "at least one write and one read and >= 3 transactions; distinct = distinct (layout, scenario).  Decode tie: one case "
                "per layout, all 2^aw addresses.  Register objects also include reg32.Output / reg32.Input (1..32 bit signals, lsbs / msbs / "
                "explicit offset+padding, crossing byte lanes) and inline reg32.Memory (IMMEDIATE / SPLIT_WORDS); every compiled layout "
                "additionally gets the strobe sweep: all 16 WSTRB patterns on every register object and on an unmapped address, each "
                "write followed by a read, strictly serial.")
    # ---- A. decode tie (no compile)
    decode_tie(ctx, ctx.scale(60, 400))

    slow_probes(ctx, ctx.scale(6, 18))

    # ---- B + C. compiled designs
    n_lay = ctx.scale(18, 110)
    n_scn = ctx.scale(14, 40)
    lays = [(f"probe:{name}", lay, [scn]) for name, lay, scn in probes()]
    for i in range(n_lay):
        wrapper = "addr_map_entity" if i % 6 == 5 else "base_entity"
        deep = rng.choice([3, 3, 4]) if i % 3 == 1 else None
        lay = gen_layout(rng, max_regs=ctx.scale(7, 9), wrapper=wrapper, deep=deep)
        if wrapper == "addr_map_entity":
            lay["root_words"] = None
            for rc in lay["regclasses"]:
                # no hardware side on this wrapper: hardware fields would be undriven
                for f in rc["fields"]:
                    if f["kind"] == "hw":
                        f["kind"], f["default"] = "mem", 0
            for fr in flat_regs(lay):
                if fr["spec"]["k"] == "memword":
                    fr["spec"]["default"] = 0      # no _config_ hook on this wrapper
        lays.append((f"random:{i}", lay, [gen_sweep(rng, lay)] + [gen_scenario(rng, lay) for _ in range(n_scn)]))
    srcs = [gen_source(lay) for _, lay, _ in lays]
    compiled = compile_many([(s, "E") for s in srcs])
    tasks, meta = [], []
    rejected = 0
    for (origin, lay, scns), src, c in zip(lays, srcs, compiled):
        if not c["ok"]:
            rejected += 1
            frs = flat_regs(lay)
            if c["errtype"] == "HarnessError":
                raise InfraError("compile task failed: " + c["err"])
            ctx.report(f"compile:{c['errtype']}:depth{max_depth(lay)}",
                       f"[a legal register map (nesting depth {max_depth(lay)}) is rejected by the compiler: {c['errtype']}: {c['err'][-200:]}]",
                       {"origin": origin, "layout": lay, "design_source": src, "error": c}, no_failing_input=True)
            continue
        for scn in scns:
            tasks.append((c["vhdl"], lay, scn))
            meta.append((origin, lay, scn, src))
    sims = fork_map(_sim_task, tasks, fresh=False, chunk=4)
    reqs = []
    for t, s in zip(tasks, sims):
        if s[0] == "ok":
            reqs.append(model_request(t[1], s[1]["toks"]))
    answers = iter(lean_io.query("C20", reqs))
    mism = mon_err = sim_err = 0
    reported_layouts = {}
    for (origin, lay, scn, src), t, s in zip(meta, tasks, sims):
        nw = sum(len(p["writes"]) for p in scn["phases"])
        nr = sum(len(p["reads"]) for p in scn["phases"])
        if s[0] != "ok":
            sim_err += 1
            ctx.report(f"sim-error:{s[1].splitlines()[-1][:80] if s[1] else ''}", f"the emitted VHDL cannot be executed: {s[1][-300:]}",
                       {"origin": origin, "layout": lay, "scenario": scn, "design_source": src, "error": s[1]}, no_failing_input=True)
            continue
        res = s[1]
        mrows = model_rows(lay, next(answers))
        k = first_diff(res["rows"], mrows)
        ctx.case(key=("sim", json.dumps(lay, sort_keys=True), json.dumps(scn, sort_keys=True)), nontrivial=nw >= 1 and nr >= 1 and nw + nr >= 3,
                 kind=f"regs={len(flat_regs(lay))}", sample={"origin": origin, "aw": lay["aw"], "registers": [fr["path"] + "@" + hex(fr["offset"]) for fr in flat_regs(lay)][:6],
                                                            "scenario": scenario_summary(scn)[:200], "clocks": len(res["rows"]), "last_row": res["rows"][-1] if res["rows"] else ""})
        for p in scn["phases"]:
            for w in p["writes"]:
                ctx.dist["strb:" + ("full" if w["strb"] == 15 else "none" if w["strb"] == 0 else "partial")] += 1
                ctx.dist["order:" + ("same" if w["ga"] == w["gw"] else "aw-first" if w["ga"] < w["gw"] else "w-first")] += 1
            ctx.dist["reads"] += len(p["reads"])
            ctx.dist["resets"] += int(p["reset_after"] > 0)
        ctx.dist["clocks"] += len(res["rows"])
        if res["errors"]:
            mon_err += 1
        if k is not None:
            mism += 1
        if res["errors"] or k is not None:
            n_rep = reported_layouts.get(origin, 0)
            if n_rep < 2 and sum(reported_layouts.values()) < ctx.scale(3, 10):
                reported_layouts[origin] = n_rep + 1
                report_failure(ctx, t[0], lay, scn, src, origin)
    ctx.obligation("correspondence: emitted AXI4-Lite register-map designs = Lean model C20.step per clock (five channels, register-backed "
                   "outputs, notifications) on all generated scenarios", mism == 0 and sim_err == 0,
                   detail=f"{len(tasks)} scenarios on {len(lays) - rejected} designs, {mism} mismatching, {sim_err} not executable, {rejected} layouts rejected")
    ctx.obligation("protocol monitor on the real traces: valid held until ready, one response per request, no response without request, OKAY",
                   mon_err == 0, detail=f"{len(tasks)} scenarios, {mon_err} with monitor errors")


def replay(ctx, data):
    r = data["replay"]
    lay = r["layout"]
    if r.get("origin") == "slow-probe":
        c = compile_many([(slow_source(r["params"]), "E")])[0]
        if not c["ok"]:
            print("rejected:", c["errtype"], c["err"][-300:])
            return 1
        fails_ = slow_sim((c["vhdl"], r["params"]))
        for f in fails_:
            print(f)
        return 1 if fails_ else 0
    if r.get("origin") == "decode-tie":
        res = fork_map(decode_task, [lay], fresh=True, batch=1)[0]
        ents = " ".join(str(x) for x in lean_entries(lay))
        m_off, m_tab = lean_io.query("C20", [f"flat {ents}", f"decode {lay['aw']} {ents}"])
        print("real :", res[1] if res[0] == "ok" else res)
        print("model offsets:", m_off)
        ok = res[0] == "ok" and "rejected" not in res[1] and " ".join(map(str, res[1]["offsets"])) == m_off and res[1]["table"] == m_tab
        print("agree" if ok else "DIFFERENT")
        return 0 if ok else 1
    c = compile_many([(gen_source(lay), "E")])[0]
    if not c["ok"]:
        print("rejected by the compiler:", c["errtype"], c["err"][-300:])
        return 1
    if "scenario" not in r:
        print("compiles now")
        return 0
    res, mrows = run_pair(c["vhdl"], lay, r["scenario"])
    k = first_diff(res["rows"], mrows)
    print("scenario:", scenario_summary(r["scenario"]))
    for e in res["errors"]:
        print("monitor :", e)
    if k is not None:
        print(f"clock {k}:")
        print("  observed:", res["rows"][k] if k < len(res["rows"]) else "-")
        print("  expected:", mrows[k] if k < len(mrows) else "-")
        print("  columns : awready wready bvalid arready rvalid rdata {value notify addr}*")
    return 1 if (res["errors"] or k is not None) else 0


# ------------------------------------------------------------------------------------------------
# multi-clock handlers: the master moves ARADDR / AWADDR / WDATA away as soon as the handshake completed
# ------------------------------------------------------------------------------------------------

SLOW_SRC = '''from __future__ import annotations
import cohdl
from cohdl import Port, Bit, BitVector, Unsigned, Signal, Null, Full
from cohdl import std
from cohdl.std.axi import axi4_light as axi
from cohdl.std.reg import reg32

class Slow(reg32.Register):
    v: reg32.MemField[31:0, Null]
    async def _on_read_(self):
{RWAIT}
        return self
    async def _on_write_(self, data):
        buf = Signal[BitVector[32]](data.v.val())
{WWAIT}
        return self(v=buf)

class Note(reg32.Register):
    v: reg32.MemField[31:0, Null]
    npr: reg32.PushOnNotify.Read
    npw: reg32.PushOnNotify.Write

class Root(reg32.AddrMap):
{MEMBERS}
    def _config_(self, ent):
        self.ent = ent
    def _impl_concurrent_(self):
        e = self.ent
        e.o_slow <<= self.slow._to_bits_()
{CONC}

class E(axi.base_entity(addr_width=6)):
    o_slow = Port.output(BitVector[32])
{PORTS}
    def architecture(self):
        self.interface_connection().connect_addr_map(Root(self))
'''


def slow_source(p):
    notes = p["notes"]
    return SLOW_SRC.format(
        RWAIT="\n".join(["        await cohdl.true"] * p["rwait"]), WWAIT="\n".join(["        await cohdl.true"] * p["wwait"]),
        MEMBERS="\n".join([f"    slow: Slow[{p['slow']}]"] + [f"    note{i}: Note[{a}]" for i, a in enumerate(notes)]),
        CONC="\n".join(f"        e.o_n{i} <<= self.note{i}._to_bits_()\n        e.nr_{i} <<= bool(self.note{i}.npr)\n        e.nw_{i} <<= bool(self.note{i}.npw)"
                       for i in range(len(notes))),
        PORTS="\n".join(f"    o_n{i} = Port.output(BitVector[32])\n    nr_{i} = Port.output(Bit)\n    nw_{i} = Port.output(Bit)" for i in range(len(notes))))


def slow_sim(task):
    """direct check of the property on a design with multi-clock read / write handlers (not covered by the per-clock
    Lean model): after each handshake the master drives the payload of that channel to ANOTHER mapped address / other
    data.  Returns the list of property failures."""
    vhdl, p = task
    d = Design(vhdl)
    for port in ("axi_clk", "axi_awaddr", "axi_awprot", "axi_awvalid", "axi_wdata", "axi_wstrb", "axi_wvalid", "axi_bready",
                 "axi_araddr", "axi_arprot", "axi_arvalid", "axi_rready"):
        d.set(port, 0)
    d.set("axi_reset", 0)
    d.initialise()
    notes = p["notes"]
    fails = []
    pulses = {("r", i): 0 for i in range(len(notes))}
    pulses.update({("w", i): 0 for i in range(len(notes))})

    def clk():
        d.settle()
        pre = {k: d.get("axi_" + k) for k in ("awready", "wready", "bvalid", "arready", "rvalid", "rdata")}
        d.clock("axi_clk")
        for i in range(len(notes)):
            pulses[("r", i)] += int(d.get(f"nr_{i}") == 1)
            pulses[("w", i)] += int(d.get(f"nw_{i}") == 1)
        return pre

    for _ in range(2):
        clk()
    d.set("axi_reset", 1)
    for _ in range(2):
        clk()

    def write(addr, data, other_addr, other_data, w_late):
        d.set("axi_awaddr", addr); d.set("axi_awvalid", 1)
        d.set("axi_wdata", data); d.set("axi_wstrb", 15); d.set("axi_wvalid", 0 if w_late else 1)
        d.set("axi_bready", 1)
        nb, aw_done, w_done = 0, False, False
        for k in range(30):
            if w_late and k == w_late and not w_done:
                d.set("axi_wvalid", 1)
            pre = clk()
            if not aw_done and d.get("axi_awvalid") == 1 and pre["awready"] == 1:
                aw_done = True
                d.set("axi_awvalid", 0); d.set("axi_awaddr", other_addr)      # legal: the address phase is over
            if not w_done and d.get("axi_wvalid") == 1 and pre["wready"] == 1:
                w_done = True
                d.set("axi_wvalid", 0); d.set("axi_wdata", other_data); d.set("axi_wstrb", 15)
            nb += int(pre["bvalid"] == 1)
            if nb and pre["bvalid"] != 1 and k > 12:
                break
        d.set("axi_bready", 0)
        return nb

    def read(addr, other_addr):
        d.set("axi_araddr", addr); d.set("axi_arvalid", 1); d.set("axi_rready", 1)
        nr, ar_done, val = 0, False, None
        for k in range(30):
            pre = clk()
            if not ar_done and pre["arready"] == 1:
                ar_done = True
                d.set("axi_arvalid", 0); d.set("axi_araddr", other_addr)      # legal: the address phase is over
            if pre["rvalid"] == 1:
                nr += 1
                val = pre["rdata"]
            if nr and pre["rvalid"] != 1 and k > 12:
                break
        d.set("axi_rready", 0)
        return nr, val

    def expect(what, got, want):
        if got != want:
            fails.append({"what": what, "observed": got, "expected": want})

    vals = p["values"]
    for i, a in enumerate(notes):
        expect(f"B responses of write to note{i}", write(a, vals[i + 1], p["slow"], 0, 0), 1)
        expect(f"note{i} after its write", d.get(f"o_n{i}"), vals[i + 1])
    base = dict(pulses)
    for j, other in enumerate(notes):
        x = (vals[0] + j) & M32
        nb = write(p["slow"], x, other, x ^ M32, p["w_late"])
        expect(f"B responses of the slow write (AWADDR/WDATA moved to note{j} after the handshakes)", nb, 1)
        expect("slow register after its write", d.get("o_slow"), x)
        for i in range(len(notes)):
            expect(f"note{i} after a write to the slow register", d.get(f"o_n{i}"), vals[i + 1])
            expect(f"write notifications of note{i} without a write request", pulses[("w", i)] - base[("w", i)], 0)
        nr, val = read(p["slow"], other)
        expect(f"R responses of the slow read (ARADDR moved to note{j} after the handshake)", nr, 1)
        expect(f"read data of the slow register (ARADDR moved to note{j} after the handshake)", val, x)
        for i in range(len(notes)):
            expect(f"read notifications of note{i} without a read request", pulses[("r", i)] - base[("r", i)], 0)
    for i, a in enumerate(notes):
        nr, val = read(a, p["slow"])
        expect(f"read data of note{i}", val, vals[i + 1])
        expect(f"read notifications of note{i} for one read", pulses[("r", i)] - base[("r", i)], 1)
    return fails


def slow_probes(ctx, n):
    rng = ctx.rng
    params = []
    for k in range(n):
        slow = 4 * rng.randrange(0, 6)
        cnt = rng.randint(1, 3)
        notes = sorted(rng.sample(range(slow + 4, 64, 4), cnt))
        params.append({"slow": slow, "notes": notes, "rwait": 1 + k % 3, "wwait": 1 + (k // 3 + k) % 3, "w_late": rng.choice([0, 0, 2]),
                       "values": [rng.randrange(1, 1 << 32) for _ in range(cnt + 1)]})
    compiled = compile_many([(slow_source(p), "E") for p in params])
    tasks = []
    for p, c in zip(params, compiled):
        if not c["ok"]:
            ctx.report(f"slow-handler:compile:{c['errtype']}", f"a register map with multi-clock handlers is rejected: {c['errtype']}: {c['err'][-200:]}",
                       {"origin": "slow-probe", "params": p, "design_source": slow_source(p)}, no_failing_input=True)
        else:
            tasks.append((c["vhdl"], p))
    res = fork_map(slow_sim, tasks, fresh=False, chunk=1)
    bad = 0
    for (vhdl, p), r in zip(tasks, res):
        ctx.case(key=("slow", json.dumps(p, sort_keys=True)), nontrivial=True, kind="multi-clock-handler")
        if r[0] != "ok":
            bad += 1
            ctx.report("slow-handler:sim-error", f"multi-clock handler design cannot be executed: {r[1][-300:]}",
                       {"origin": "slow-probe", "params": p, "design_source": slow_source(p)}, no_failing_input=True)
        elif r[1]:
            bad += 1
            f = r[1][0]
            what = f["what"].split(" (")[0]
            ctx.report(f"slow-handler:{what}", f"register with a {p['rwait']}-clock read / {p['wwait']}-clock write handler at {p['slow']:#x}, notifying registers at "
                       f"{[hex(a) for a in p['notes']]}: {f['what']} is {f['observed']}, expected {f['expected']}",
                       {"origin": "slow-probe", "params": p, "failures": r[1][:6], "design_source": slow_source(p)})
    ctx.obligation("multi-clock read / write handlers with the master moving ARADDR / AWADDR / WDATA after the handshake: read data, "
                   "single response, no foreign notification, no foreign update (direct check on the emitted design)", bad == 0,
                   detail=f"{len(tasks)} designs, {bad} failing")
