"""C18 - std combinational helpers compute their mathematical definition.

Tie, both THROUGH THE COMPILER of /repo's current tree: for every helper configuration a wrapper entity is
generated twice - once with literal arguments (the tracer folds the call; the value assigned to the output is
read from the emitted VHDL by executing it without inputs) and once with port-fed arguments (the emitted logic
is executed by harness/vhdl_sim.py on all input values for small total input widths, on corner + random values
for wide ones).  Every observed value is compared with
  * the Lean SPEC of the helper (population count, length of the leading run, rotation, List.foldl, bitwise
    polynomial division, ...):  a difference is a VIOLATION (helper + arguments = replay), and
  * the Lean MIRROR of the Python code (tree fold, per-batch lookup + widening adds, binary decomposition ...):
    a difference only says that the model no longer mirrors the code (diagnostic obligation).
Props/C18.lean proves mirror = spec for all widths / lengths / batch sizes.
The CRC helper is additionally driven as a clocked design (update / update_multiple with k bits per clock).
"""

import itertools
import os

from .common import Ctx, InfraError, fork_map, import_cohdl, load_design_module
from . import lean_io

HEAD = '''import cohdl
from cohdl import std, Bit, BitVector, Unsigned, Signed, Port, Null, Full


class W(cohdl.Entity):
{ports}

    def architecture(self):
{pre}
        @std.concurrent
        def logic():
{stmts}
'''

MAX_REPORTS = 8


def bitlen(n):
    return int(n).bit_length()


def upto_w(n):
    return max(int(n), 1).bit_length()


def signed_of(v, w):
    return v - (1 << w) if v >> (w - 1) & 1 else v


class Item:
    """one helper call: `expr` is a format string over the argument expressions of the group"""

    def __init__(self, helper, cfg, expr, out, req, valid=None, sel=None, plain=False):
        self.helper, self.cfg, self.expr, self.out, self.req = helper, cfg, expr, out, req
        self.valid, self.sel, self.plain = valid, sel, plain

    def expected(self, answer):
        """(spec, mirror) canonical `w:v` strings from the model's answer line"""
        parts = answer.split(" ")
        if len(parts) != 2:
            return None, None
        res = []
        for p in parts:
            if self.sel is not None and p not in ("reject", "bad-op"):
                ps = p.split(",")
                p = ps[self.sel] if self.sel < len(ps) else "missing"
            if self.plain and p not in ("reject", "bad-op"):
                p = f"{self.ow}:{p}"
            res.append(p)
        return res[0], res[1]

    @property
    def ow(self):
        return 1 if self.out == "bit" else self.out


class Group:
    def __init__(self, name, args, items, wide=False):
        self.name, self.args, self.items, self.wide = name, args, items, wide

    @property
    def nbits(self):
        return sum(w for _, w in self.args)


def port_type(kind, w):
    return {"bv": f"BitVector[{w}]", "uns": f"Unsigned[{w}]", "sgn": f"Signed[{w}]", "bit": "Bit"}[kind]


def literal(kind, w, v):
    if kind == "bv":
        return f'BitVector[{w}]("{v:0{w}b}")'
    if kind == "uns":
        return f"Unsigned[{w}]({v})"
    if kind == "sgn":
        return f"Signed[{w}]({signed_of(v, w)})"
    return f"Bit({v})"


def out_type(out):
    return "Bit" if out == "bit" else f"BitVector[{out}]"


def make_src(args, outs, pre=""):
    """args: [(kind, w)] -> input ports p0..; outs: [(name, out, expr_text)]"""
    ports = [f"    p{i} = Port.input({port_type(k, w)})" for i, (k, w) in enumerate(args)]
    ports += [f"    {n} = Port.output({out_type(o)})" for n, o, _ in outs]
    stmts = [f"            self.{n} <<= {e}" for n, _, e in outs]
    return HEAD.format(ports="\n".join(ports), pre=pre, stmts="\n".join(stmts))


def src_port(group, items):
    argx = [f"self.p{i}" for i in range(len(group.args))]
    return make_src(group.args, [(f"o{j}", it.out, it.expr.format(*argx)) for j, it in items])


def src_const(group, cells):
    """cells: [(name, item, vector)]"""
    outs = []
    for name, it, vec in cells:
        argx = [literal(k, w, v) for (k, w), v in zip(group.args, vec)]
        outs.append((name, it.out, it.expr.format(*argx)))
    return make_src([], outs)


# ---------------------------------------------------------------------------------------------------
# child task: compile one wrapper with the real compiler and execute the emitted VHDL
# ---------------------------------------------------------------------------------------------------

def run_entity(task):
    """task: {src, inputs:[(port, width)], vectors:[[int]], outputs:[name], clock: bool}
    -> {ok, rows:[[int|None]]} | {ok: False, stage, errtype, err}"""
    import_cohdl()
    from cohdl import std
    from .vhdl_sim import Design as _Design, SL, Vec

    class Design(_Design):
        # local work-around (see notes/C18.md, SHARED-CHANGE-REQUEST): `sl & sl` is legal VHDL when the context
        # fixes the array type (`a <= p0(0) & p0(1);` with a : std_logic_vector, as emitted for Bit @ Bit); the shared
        # interpreter rejects it as ambiguous.  Here it yields an untyped vector that is typed by the assignment.
        def _concat(self, a, b):
            if isinstance(a, SL) and isinstance(b, SL):
                return Vec(None, a.v + b.v)
            return super()._concat(a, b)

    try:
        mod = load_design_module(task["src"])
        vhdl = std.VhdlCompiler.to_string(mod.W)
    except BaseException as e:  # noqa
        return {"ok": False, "stage": "compile", "errtype": type(e).__name__, "err": str(e)[-300:]}
    try:
        d = Design(vhdl)
        rows = []
        clock = task.get("clock")
        if clock:
            d.set("clk", 0)
        first = True
        for vec in task["vectors"]:
            for (port, w), v in zip(task["inputs"], vec):
                d.set(port, format(v, f"0{w}b") if w else v)
            if first:
                d.initialise()
                first = False
            d.settle()
            if clock:
                d.clock("clk")
            rows.append([d.get(o) for o in task["outputs"]])
        return {"ok": True, "rows": rows}
    except BaseException as e:  # noqa
        return {"ok": False, "stage": "simulate", "errtype": type(e).__name__, "err": str(e)[-300:], "vhdl": vhdl[-1500:]}


# ---------------------------------------------------------------------------------------------------
# helper configurations
# ---------------------------------------------------------------------------------------------------

def g_popcount(w, bss, wide=False):
    items = []
    for bs in bss:
        kw = "" if bs is None else f", batch_size={bs}"
        eff = 6 if bs is None else bs
        items.append(Item("count_set_bits", f"w={w}:bs={bs}", "std.count_set_bits({0}%s).bitvector" % kw, bitlen(w),
                          lambda v, w=w, eff=eff: f"popcnt {w} {eff} {v[0]}"))
        items.append(Item("count_clear_bits", f"w={w}:bs={bs}", "std.count_clear_bits({0}%s).bitvector" % kw, bitlen(w),
                          lambda v, w=w, eff=eff: f"clrcnt {w} {eff} {v[0]}"))
    return Group(f"popcount:w={w}", [("bv", w)], items, wide)


def g_leadtrail(w, wide=False):
    items = [Item(f"count_{n}", f"w={w}", f"std.count_{n}({{0}}).bitvector", upto_w(w), lambda v, w=w, op=op: f"{op} {w} {v[0]}")
             for n, op in (("leading_zeros", "clz"), ("trailing_zeros", "ctz"), ("leading_ones", "clo"), ("trailing_ones", "cto"))]
    return Group(f"leadtrail:w={w}", [("bv", w)], items, wide)


def g_onehot_const(w):
    return Group(f"one_hot_const:w={w}", [],
                 [Item("one_hot", f"w={w}:pos={p}", f"std.one_hot({w}, {p})", w, lambda v, w=w, p=p: f"onehot {w} {p}") for p in range(w)])


def g_onehot_rt(w):
    pw = max(1, bitlen(w - 1))
    return Group(f"one_hot_rt:w={w}", [("uns", pw)],
                 [Item("one_hot", f"w={w}:pos=runtime", f"std.one_hot({w}, {{0}})", w, lambda v, w=w: f"onehot {w} {v[0]}",
                       valid=lambda v, w=w: v[0] < w)])


def g_isonehot(w, wide=False):
    return Group(f"is_one_hot:w={w}", [("bv", w)],
                 [Item("is_one_hot", f"w={w}", "std.is_one_hot({0})", "bit", lambda v, w=w: f"isonehot {w} {v[0]}")], wide)


def g_reverse(w, wide=False):
    return Group(f"reverse_bits:w={w}", [("bv", w)],
                 [Item("reverse_bits", f"w={w}", "std.reverse_bits({0})", w, lambda v, w=w: f"rev {w} {v[0]}")], wide)


def g_rot(w, ns=None, wide=False):
    items = []
    for n in (ns if ns is not None else range(w + 1)):
        items.append(Item("rol", f"w={w}:n={n}", f"std.rol({{0}}, {n})", w, lambda v, w=w, n=n: f"rol {w} {n} {v[0]}"))
        items.append(Item("ror", f"w={w}:n={n}", f"std.ror({{0}}, {n})", w, lambda v, w=w, n=n: f"ror {w} {n} {v[0]}"))
    if ns is None and w >= 1:
        items.append(Item("rol", f"w={w}:n=default", "std.rol({0})", w, lambda v, w=w: f"rol {w} 1 {v[0]}"))
        items.append(Item("ror", f"w={w}:n=default", "std.ror({0})", w, lambda v, w=w: f"ror {w} 1 {v[0]}"))
    return Group(f"rotate:w={w}", [("bv", w)], items, wide)


def g_shiftfill(w, wf, bit=False):
    fk = ("bit", 1) if bit else ("bv", wf)
    tag = "bit" if bit else wf
    return Group(f"shift_fill:w={w}:fill={tag}", [("bv", w), fk],
                 [Item("lshift_fill", f"w={w}:fill={tag}", "std.lshift_fill({0}, {1})", w, lambda v, w=w, wf=wf: f"lsf {w} {wf} {v[0]} {v[1]}"),
                  Item("rshift_fill", f"w={w}:fill={tag}", "std.rshift_fill({0}, {1})", w, lambda v, w=w, wf=wf: f"rsf {w} {wf} {v[0]} {v[1]}")])


def g_repeat(w, times):
    return Group(f"repeat:w={w}", [("bv", w)],
                 [Item("repeat", f"w={w}:times={t}", f"std.repeat({{0}}, {t})", w * t, lambda v, w=w, t=t: f"repeat {w} {t} {v[0]}") for t in times])


def g_stretch(w, factors):
    return Group(f"stretch:w={w}", [("bv", w)],
                 [Item("stretch", f"w={w}:factor={f}", f"std.stretch({{0}}, {f})", w * f, lambda v, w=w, f=f: f"stretch {w} {f} {v[0]}") for f in factors])


def g_stretch_bit(factors):
    return Group("stretch:bit", [("bit", 1)],
                 [Item("stretch", f"bit:factor={f}", f"std.stretch({{0}}, {f})", f, lambda v, f=f: f"stretch 1 {f} {v[0]}") for f in factors])


def g_pad(w, fill_port):
    items = []
    fills = [("port", "{1}", None)] if fill_port else [("none", None, 0), ("Null", "Null", 0), ("Full", "Full", 1)]
    for tag, fx, fv in fills:
        for rw in (w, w + 1, w + 3):
            for name in ("leftpad", "rightpad"):
                fa = "" if fx is None else f", {fx}"
                items.append(Item(name, f"w={w}:rw={rw}:fill={tag}", f"std.{name}({{0}}, {rw}{fa})", rw,
                                  lambda v, w=w, rw=rw, fv=fv, name=name: f"{name} {w} {rw} {v[1] if fv is None else fv} {v[0]}"))
        for l, r in ((0, 0), (1, 0), (0, 2), (3, 2), (2, 5)):
            fa = "" if fx is None else f", fill={fx}"
            items.append(Item("pad", f"w={w}:l={l}:r={r}:fill={tag}", f"std.pad({{0}}, {l}, {r}{fa})", w + l + r,
                              lambda v, w=w, l=l, r=r, fv=fv: f"pad {w} {l} {r} {v[1] if fv is None else fv} {v[0]}"))
    return Group(f"pad:w={w}:{'fillport' if fill_port else 'fillconst'}", [("bv", w)] + ([("bit", 1)] if fill_port else []), items)


def g_concat(shape):
    args = [(k, w) for k, w in shape]
    tot = sum(w for _, w in args)
    ex = "std.concat(" + ", ".join(f"{{{i}}}" for i in range(len(args))) + ")"
    tag = "+".join(f"{k}{w}" for k, w in shape)
    return Group(f"concat:{tag}", args,
                 [Item("concat", tag, ex, tot, lambda v, args=args: "concat " + " ".join(f"{w} {x}" for (_, w), x in zip(args, v)))])


def g_mask(w):
    full = (1 << w) - 1
    return Group(f"mask:w={w}", [("bv", w)] * 3, [
        Item("apply_mask", f"w={w}", "std.apply_mask({0}, {1}, {2})", w, lambda v, w=w: f"mask {w} {v[0]} {v[1]} {v[2]}"),
        Item("Mask.apply", f"w={w}:mask=vector", "std.Mask({2}).apply({0}, {1})", w, lambda v, w=w: f"mask {w} {v[0]} {v[1]} {v[2]}"),
        Item("Mask.apply", f"w={w}:mask=Null", "std.Mask(Null).apply({0}, {1}).bitvector", w, lambda v, w=w: f"mask {w} {v[0]} {v[1]} 0"),
        Item("Mask.apply", f"w={w}:mask=Full", "std.Mask(Full).apply({0}, {1}).bitvector", w, lambda v, w=w: f"mask {w} {v[0]} {v[1]} {full}"),
        Item("Mask.as_vector", f"w={w}", f"std.Mask({{2}}).as_vector({w})", w, lambda v, w=w: f"mask {w} 0 {full} {v[2]}"),
    ])


def g_batched(w, n):
    nchunks = (w + n - 1) // n
    partial = w % n != 0
    items = []
    for j in range(nchunks):
        cw = min(n, w - j * n)
        ap = ", allow_partial=True" if partial or j % 2 else ""
        items.append(Item("batched", f"w={w}:n={n}:chunk={j}", f"std.batched({{0}}, {n}{ap})[{j}]", cw,
                          lambda v, w=w, n=n: f"batched {w} {n} 1 {v[0]}", sel=j))
    items.append(Item("batched", f"w={w}:n={n}:last", f"std.batched({{0}}, {n}, allow_partial=True)[-1]", min(n, w - (nchunks - 1) * n),
                      lambda v, w=w, n=n: f"batched {w} {n} 1 {v[0]}", sel=nchunks - 1))
    return Group(f"batched:w={w}:n={n}", [("bv", w)], items)


def g_select_batch(k, bs):
    return Group(f"select_batch:k={k}:bs={bs}", [("bv", k * bs), ("bv", k)],
                 [Item("select_batch", f"k={k}:bs={bs}", f"std.select_batch({{0}}, {{1}}, {bs})", bs,
                       lambda v, k=k, bs=bs: f"selbatch {k} {bs} {v[0]} {v[1]}")])


def g_minmax(n, w, signed):
    kind = "sgn" if signed else "uns"
    lst = "[" + ", ".join(f"{{{i}}}" for i in range(n)) + "]"
    star = ", ".join(f"{{{i}}}" for i in range(n))
    iw = upto_w(n)

    def keys(v):
        return " ".join(str(signed_of(x, w) if signed else x) for x in v)

    t = f"n={n}:w={w}:{kind}"
    items = [
        Item("minimum", t, f"std.minimum({lst}).bitvector", w, lambda v: f"min {w} {keys(v)}"),
        Item("maximum", t, f"std.maximum({lst}).bitvector", w, lambda v: f"max {w} {keys(v)}"),
        Item("min_index", t, f"std.min_index({lst}).bitvector", iw, lambda v: f"minidx {w} {keys(v)}"),
        Item("max_index", t, f"std.max_index({lst}).bitvector", iw, lambda v: f"maxidx {w} {keys(v)}"),
        Item("min_element", t + ":idx", f"std.min_element({lst})[0].bitvector", iw, lambda v: f"minidx {w} {keys(v)}"),
        Item("min_element", t + ":val", f"std.min_element({lst})[1].bitvector", w, lambda v: f"min {w} {keys(v)}"),
        Item("max_element", t + ":idx", f"std.max_element({lst})[0].bitvector", iw, lambda v: f"maxidx {w} {keys(v)}"),
        Item("max_element", t + ":val", f"std.max_element({lst})[1].bitvector", w, lambda v: f"max {w} {keys(v)}"),
    ]
    if n >= 2:
        items.append(Item("minimum", t + ":varargs", f"std.minimum({star}).bitvector", w, lambda v: f"min {w} {keys(v)}"))
        items.append(Item("maximum", t + ":varargs", f"std.maximum({star}).bitvector", w, lambda v: f"max {w} {keys(v)}"))
    return Group(f"minmax:{t}", [(kind, w)] * n, items)


def g_count(n, w):
    lst = "[" + ", ".join(f"{{{i}}}" for i in range(n)) + "]"
    val = f"{{{n}}}"
    cw = 1 if n == 0 else bitlen(n)
    t = f"n={n}:w={w}"
    one = f"Unsigned[{w}](1)"
    items = [
        Item("count", t + ":value", f"std.count({lst}, {val}).bitvector", cw, lambda v: f"count {v[n]} " + " ".join(map(str, v[:n]))),
        Item("count", t + ":check", f"std.count({lst}, check=lambda x: x == {one}).bitvector", cw, lambda v: "count 1 " + " ".join(map(str, v[:n]))),
        Item("count_elements_while", t + ":val", f"std.count_elements_while({lst}, {val}).bitvector", upto_w(n), lambda v: f"cwhile {v[n]} " + " ".join(map(str, v[:n]))),
        Item("count_elements_until", t + ":val", f"std.count_elements_until({lst}, {val}).bitvector", upto_w(n), lambda v: f"cuntil {v[n]} " + " ".join(map(str, v[:n]))),
        Item("count_elements_while", t + ":cond", f"std.count_elements_while({lst}, cond=lambda x: x == {one}).bitvector", upto_w(n), lambda v: "cwhile 1 " + " ".join(map(str, v[:n]))),
        Item("count_elements_until", t + ":cond", f"std.count_elements_until({lst}, cond=lambda x: x == {one}).bitvector", upto_w(n), lambda v: "cuntil 1 " + " ".join(map(str, v[:n]))),
    ]
    return Group(f"count:{t}", [("uns", w)] * (n + 1), items)


def g_clamp(w, signed):
    kind = "sgn" if signed else "uns"

    def dec(x):
        return signed_of(x, w) if signed else x

    t = f"w={w}:{kind}"
    lo_c, hi_c = (-1, 1) if signed else (1, (1 << w) - 2)
    return Group(f"clamp:{t}", [(kind, w)] * 3, [
        Item("clamp", t + ":ports", "std.clamp({0}, {1}, {2}).bitvector", w, lambda v: f"clamp {w} {dec(v[0])} {dec(v[1])} {dec(v[2])}",
             valid=lambda v: dec(v[1]) <= dec(v[2])),
        Item("clamp", t + ":literal-bounds", f"std.clamp({{0}}, {lo_c}, {hi_c}).bitvector", w, lambda v: f"clamp {w} {dec(v[0])} {lo_c} {hi_c}",
             valid=lambda v: lo_c <= hi_c),
    ])


def g_first(k, w):
    args = []
    for _ in range(k):
        args += [("bit", 1), ("bv", w)]
    args.append(("bv", w))
    ex = "std.choose_first(" + ", ".join(f"({{{2 * i}}}, {{{2 * i + 1}}})" for i in range(k)) + f"{', ' if k else ''}default={{{2 * k}}})"
    return Group(f"choose_first:k={k}:w={w}", args,
                 [Item("choose_first", f"k={k}:w={w}", ex, w, lambda v: f"first {v[2 * k]} " + " ".join(map(str, v[: 2 * k])), plain=True)])


def g_select(w, keys):
    args = [("uns", w)] + [("bv", 2)] * (len(keys) + 1)
    br = ", ".join(f"{k}: {{{i + 1}}}" for i, k in enumerate(keys))
    d = len(keys) + 1
    return Group(f"select:w={w}:keys={'-'.join(map(str, keys))}", args, [
        Item("select", f"w={w}:keys={keys}", f"std.select({{0}}, {{{{{br}}}}}, default={{{d}}})", 2,
             lambda v: f"select {v[0]} {v[d]} " + " ".join(f"{k} {v[i + 1]}" for i, k in enumerate(keys)), plain=True)])


def g_cond(w):
    return Group(f"cond:w={w}", [("bit", 1), ("bv", w), ("bv", w)],
                 [Item("cond", f"w={w}", "std.cond({0}, {1}, {2})", w, lambda v: f"cond {v[0]} {v[1]} {v[2]}", plain=True)])


FOLD_WIDTHS = [1, 2, 1, 1, 2, 1, 1, 1, 2, 1, 1, 1]


def g_fold(n, bss):
    args = [("bv", FOLD_WIDTHS[i]) for i in range(n)]
    tot = sum(w for _, w in args)
    lst = "[" + ", ".join(f"{{{i}}}" for i in range(n)) + "]"

    def parts(v):
        return " ".join(f"{w} {x}" for (_, w), x in zip(args, v))

    items = [Item("binary_fold", f"n={n}", f"std.binary_fold(lambda a, b: a @ b, {lst})", tot, lambda v: "fold " + parts(v)),
             Item("binary_fold", f"n={n}:right", f"std.binary_fold(lambda a, b: a @ b, {lst}, right_fold=True)", tot, lambda v: "foldr " + parts(v)),
             Item("batched_fold", f"n={n}:bs=default", f"std.batched_fold(lambda a, b: a @ b, {lst})", tot, lambda v: "bfold 2 " + parts(v))]
    for bs in bss:
        items.append(Item("batched_fold", f"n={n}:bs={bs}", f"std.batched_fold(lambda a, b: a @ b, {lst}, batch_size={bs})", tot,
                          lambda v, bs=bs: f"bfold {bs} " + parts(v)))
    return Group(f"fold:n={n}", args, items)


def g_crcsteps(w, poly, k):
    args = [("bv", w)] + [("bit", 1)] * k
    ex = f'std.crc.BitwiseCrc(BitVector[{w}]("{poly:0{w}b}"))._calc_steps(' + ", ".join(f"{{{i}}}" for i in range(k + 1)) + ")"

    def data(v):
        return sum(b << i for i, b in enumerate(v[1:]))

    return Group(f"crc_steps:w={w}:poly={poly}:k={k}", args, [
        Item("BitwiseCrc._calc_steps", f"w={w}:poly={poly}:k={k}", ex, w, lambda v: f"crc {w} {poly} {v[0]} {k} {data(v)}"),
        Item("BitwiseCrc._calc_steps", f"w={w}:poly={poly}:k={k}:iterated", ex, w, lambda v: f"crciter {w} {poly} {v[0]} {k} {data(v)}"),
    ])


def all_groups(ctx):
    q = ctx.quick
    gs = []
    for w in (range(1, 9) if q else range(1, 13)):
        gs.append(g_popcount(w, [None, 1, 2, 3, 5] if q else [None, 1, 2, 3, 4, 5, 7, 11]))
    for w in ((9, 12) if q else ()):
        gs.append(g_popcount(w, [None, 2, 5]))
    for w in ((16, 17, 33, 64) if q else (15, 16, 17, 31, 32, 33, 47, 63, 64)):
        gs.append(g_popcount(w, [None, 3] if q else [None, 1, 2, 3, 5, 11], wide=True))
    for w in (range(1, 10) if q else range(1, 13)):
        gs.append(g_leadtrail(w))
        gs.append(g_reverse(w))
    for w in ((16, 33) if q else (15, 16, 17, 33, 64)):
        gs.append(g_leadtrail(w, wide=True))
        gs.append(g_reverse(w, wide=True))
        gs.append(g_isonehot(w, wide=True))
    for w in (range(1, 8) if q else range(1, 12)):
        gs.append(g_onehot_const(w))
        gs.append(g_onehot_rt(w))
        gs.append(g_isonehot(w))
        gs.append(g_rot(w))
    for w in ((17,) if q else (16, 17, 33)):
        gs.append(g_rot(w, ns=[0, 1, 5, w - 1, w], wide=True))
    for w in (range(1, 6) if q else range(1, 8)):
        for wf in range(1, w + 1):
            gs.append(g_shiftfill(w, wf))
        gs.append(g_shiftfill(w, 1, bit=True))
    for w in ((1, 2, 3) if q else (1, 2, 3, 4, 5)):
        gs.append(g_repeat(w, [1, 2, 3, 4, 5, 6, 7, 8, 9, 15, 16] if q else list(range(1, 20)) + [31, 32, 33]))
        gs.append(g_stretch(w, [1, 2, 3, 4, 5] if q else list(range(1, 10))))
        gs.append(g_pad(w, False))
        gs.append(g_pad(w, True))
    gs.append(g_stretch_bit([1, 2, 3, 4, 5, 8, 13]))
    for shape in ([("bv", 3), ("bv", 2)], [("bit", 1), ("bv", 3), ("bit", 1)], [("bv", 1)] * 5, [("bv", 4)], [("bit", 1)],
                  [("bv", 2), ("bv", 1), ("bv", 3), ("bv", 2), ("bit", 1)], [("bit", 1)] * 7, [("bv", 1), ("bv", 2)] * 3):
        gs.append(g_concat(shape))
    for w in ((1, 2, 3) if q else (1, 2, 3, 4)):
        gs.append(g_mask(w))
    for w, n in ([(1, 1), (4, 2), (6, 3), (7, 3), (8, 3), (5, 7), (9, 4), (6, 1)] if q else
                 [(w, n) for w in range(1, 9) for n in range(1, w + 2)]):
        gs.append(g_batched(w, n))
    for k, bs in ([(1, 1), (1, 3), (2, 2), (3, 1), (3, 2), (2, 3), (4, 2)] if q else
                  [(k, bs) for k in range(1, 5) for bs in range(1, 5) if k * bs + k <= 13]):
        gs.append(g_select_batch(k, bs))
    for signed in (False, True):
        for n in (range(1, 6) if q else range(1, 7)):
            gs.append(g_minmax(n, 2, signed))
        gs.append(g_minmax(3, 3, signed))
        gs.append(g_clamp(3, signed))
        if not q:
            gs.append(g_minmax(2, 5, signed))
            gs.append(g_minmax(7, 2, signed))
            gs.append(g_minmax(9, 1, signed) if not signed else g_minmax(4, 3, signed))
            gs.append(g_clamp(4, signed))
    for n in (range(0, 5) if q else range(0, 6)):
        gs.append(g_count(n, 2))
    gs.append(g_count(7 if q else 10, 1))
    for k, w in ([(0, 2), (1, 2), (2, 2), (3, 2), (4, 1)] if q else [(0, 2), (1, 2), (2, 2), (3, 2), (4, 1), (5, 1), (3, 1)]):
        gs.append(g_first(k, w))
    gs.append(g_select(2, [0, 1, 3]))
    gs.append(g_select(2, [2]))
    gs.append(g_select(1, [0, 1]))
    gs.append(g_cond(3))
    for n in (range(1, 9) if q else range(1, 10)):
        gs.append(g_fold(n, [1, 2, 3, 4, 5] if q else [1, 2, 3, 4, 5, 6, 7, 8]))
    for w, poly, k in ([(3, 3, 1), (3, 3, 4), (4, 9, 3), (5, 5, 5), (8, 7, 2)] if q else
                       [(3, 3, 1), (3, 3, 4), (4, 9, 3), (5, 5, 5), (8, 7, 2), (8, 0x31, 4), (2, 3, 8), (6, 0x21, 6)]):
        gs.append(g_crcsteps(w, poly, k))
    return gs


REJECTS = [
    # (helper, expression with literal arguments, model request) - the definition excludes these arguments
    ("rol", 'std.rol(BitVector[3]("011"), 4)', "rol 3 4 3", 3),
    ("ror", 'std.ror(BitVector[3]("011"), 4)', "ror 3 4 3", 3),
    ("lshift_fill", 'std.lshift_fill(BitVector[2]("01"), BitVector[3]("011"))', "lsf 2 3 1 3", 2),
    ("rshift_fill", 'std.rshift_fill(BitVector[2]("01"), BitVector[3]("011"))', "rsf 2 3 1 3", 2),
    ("repeat", 'std.repeat(BitVector[2]("01"), 0)', "repeat 2 0 1", 2),
    ("stretch", 'std.stretch(BitVector[2]("01"), 0)', "stretch 2 0 1", 2),
    ("one_hot", "std.one_hot(3, 3)", "onehot 3 3", 3),
    ("batched", 'std.batched(BitVector[7]("0101110"), 3)[0]', "batched 7 3 0 46", 3),
    ("leftpad", 'std.leftpad(BitVector[3]("011"), 2)', "leftpad 3 2 0 3", 2),
    ("rightpad", 'std.rightpad(BitVector[3]("011"), 2)', "rightpad 3 2 0 3", 2),
]


# ---------------------------------------------------------------------------------------------------
# stimulus
# ---------------------------------------------------------------------------------------------------

def split_bits(n, args):
    out = []
    for _, w in args:
        out.append(n & ((1 << w) - 1))
        n >>= w
    return out


def vectors_for(ctx, group, exhaustive_bits, n_random):
    B = group.nbits
    if not group.args:
        return [[]], True
    if B <= exhaustive_bits and not group.wide:
        return [split_bits(n, group.args) for n in range(1 << B)], True
    rng = ctx.rng
    seen, vecs = set(), []

    def add(n):
        n &= (1 << B) - 1
        if n not in seen:
            seen.add(n)
            vecs.append(split_bits(n, group.args))

    add(0)
    add(-1)
    for i in range(B):
        add(1 << i)
        add(~(1 << i))
        add((1 << i) - 1)
        add(~((1 << i) - 1))
    for _ in range(n_random):
        r = rng.getrandbits(B)
        m = rng.choice([0, 0, 1, 2])
        if m == 1:
            r &= rng.getrandbits(B)      # sparse
        elif m == 2:
            r |= rng.getrandbits(B)      # dense
        add(r)
    return vecs, False


def const_vectors(ctx, group, vecs, exhaustive, limit):
    if len(vecs) <= limit:
        return list(vecs)
    rng = ctx.rng
    pick = [vecs[0], vecs[-1]] if exhaustive else vecs[:2]
    idx = sorted(rng.sample(range(len(vecs)), limit - 2))
    return pick + [vecs[i] for i in idx if vecs[i] not in pick]


def canon(item, value):
    if value is None:
        return "undefined"
    if isinstance(value, bool):
        value = int(value)
    return f"{item.ow}:{value}"


# ---------------------------------------------------------------------------------------------------
# clocked CRC designs
# ---------------------------------------------------------------------------------------------------

CRC_SRC = '''import cohdl
from cohdl import std, Bit, BitVector, Unsigned, Signed, Port, Null, Full


class W(cohdl.Entity):
    clk = Port.input(Bit)
    data = Port.input(BitVector[{K}])
    o = Port.output(BitVector[{W}])

    def architecture(self):
        crc = std.crc.BitwiseCrc(BitVector[{W}]("{POLY}"){INIT}{INV})

        @std.sequential(std.Clock(self.clk))
        def proc():
            {UPDATE}

        @std.concurrent
        def logic():
            self.o <<= crc.result()
'''


def crc_src(w, poly, init, k, invert, single):
    return CRC_SRC.format(
        K=k, W=w, POLY=format(poly, f"0{w}b"),
        INIT="" if init is None else f', initial_value=BitVector[{w}]("{init:0{w}b}")',
        INV=", invert_result=True" if invert else "",
        UPDATE="crc.update(self.data[0])" if single else "crc.update_multiple(*self.data)")


def run_crc(ctx, report):
    rng = ctx.rng
    cfgs = [(3, 3, None, 1, False, True), (3, 3, None, 1, False, False), (3, 3, 5, 3, False, False), (4, 9, None, 2, True, False),
            (8, 7, 0xFF, 8, True, False), (8, 0x31, None, 5, False, False), (5, 5, 17, 4, False, False)]
    if not ctx.quick:
        cfgs += [(16, 0x1021, 0xFFFF, 8, False, False), (16, 0x8005, None, 3, False, False),
                 (2, 3, 1, 7, True, False), (12, 0x80F, None, 1, False, True), (32, 0x04C11DB7, 0xFFFFFFFF, 8, True, False)]
    steps = ctx.scale(24, 60)
    tasks, meta = [], []
    for (w, poly, init, k, inv, single) in cfgs:
        for rep in range(ctx.scale(2, 6)):
            words = [rng.getrandbits(k) for _ in range(steps)]
            if rep == 0:
                words[:4] = [0, (1 << k) - 1, 1, 1 << (k - 1)]
            src = crc_src(w, poly, init, k, inv, single)
            tasks.append({"src": src, "inputs": [("data", k)], "vectors": [[x] for x in words], "outputs": ["o"], "clock": True})
            meta.append((w, poly, init, k, inv, single, words, src))
    res = fork_map(run_entity, tasks)
    reqs, where = [], []
    for ti, ((w, poly, init, k, inv, single, words, src), r) in enumerate(zip(meta, res)):
        acc, n = 0, 0
        for t, x in enumerate(words):
            acc |= x << n
            n += k
            reqs.append(f"crc {w} {poly} {init or 0} {n} {acc}")
            where.append((ti, t))
    answers = lean_io.query("C18", reqs)
    ans_at = {wh: a for wh, a in zip(where, answers)}
    bad = 0
    for ti, ((w, poly, init, k, inv, single, words, src), r) in enumerate(zip(meta, res)):
        cfg = f"w={w}:poly={poly}:init={init}:k={k}:invert={inv}:{'update' if single else 'update_multiple'}"
        if r[0] != "ok" or not r[1]["ok"]:
            err = r[1] if r[0] != "ok" else f"{r[1]['stage']}: {r[1]['errtype']}: {r[1]['err']}"
            bad += 1
            report(f"crc-design:{cfg}", f"clocked BitwiseCrc wrapper ({cfg}) cannot be compiled / executed: {err}",
                   {"kind": "crc", "src": src, "words": words, "error": str(err)})
            continue
        rows = r[1]["rows"]
        ctx.case(key=("crc", cfg, tuple(words)), nontrivial=True, kind="BitwiseCrc(clocked)",
                 sample={"helper": "BitwiseCrc", "cfg": cfg, "words": words[:6], "observed": [x[0] for x in rows[:6]]})
        for t, row in enumerate(rows):
            spec = ans_at[(ti, t)].split(" ")[0]
            sw, sv = spec.split(":")
            exp = int(sv) ^ ((1 << w) - 1) if inv else int(sv)
            if row[0] != exp:
                bad += 1
                report(f"crc:{cfg}",
                       f"BitwiseCrc ({cfg}): after clocking in the words {words[: t + 1]} (bit 0 first) result() = {row[0]}, polynomial division gives {exp}",
                       {"kind": "crc", "src": src, "cfg": [w, poly, init, k, inv, single], "words": words[: t + 1], "expected": exp, "observed": row[0]})
                break
    ctx.obligation("correspondence: clocked BitwiseCrc designs (update / update_multiple, k bits per clock) = bitwise polynomial division of the whole bit history",
                   bad == 0, detail=f"{len(tasks)} runs x {steps} clocks, {bad} mismatches")


# ---------------------------------------------------------------------------------------------------
# the check
# ---------------------------------------------------------------------------------------------------

def single_src(group, item, vec, variant):
    if variant == "const":
        return src_const(group, [("o0", item, vec)])
    return src_port(group, [(0, item)])


def run(ctx: Ctx):
    ctx.rule = ("one case = (helper, configuration [width / length / batch size / shift / fill ...], variant const|port, argument values); "
                "argument values: all values when the wrapper has <= 10 (quick) / 12 (thorough) input bits, otherwise corner values "
                "(0, all ones, walking one/zero, low/high runs) + random (uniform, sparse, dense); the literal variant takes all values for "
                "<= 5 / 7 input bits and a sample otherwise; non-trivial = every case (each is a full compile + evaluation of a helper call); "
                "distinct = distinct (helper, configuration, variant, values)")
    reports = [0]

    def report(sig, text, replay, **kw):
        reports[0] += 1
        if reports[0] <= MAX_REPORTS or any(e.get("signature") == sig for e in ctx.known):
            ctx.report(sig, text, replay, **kw)

    groups = all_groups(ctx)
    only = [x for x in os.environ.get("COHDL_VERIF_C18_ONLY", "").split(",") if x]   # development aid: group-name prefixes
    if only:
        groups = [g for g in groups if any(g.name.startswith(x) for x in only)]
        ctx.notes.append(f"restricted to groups {only} (COHDL_VERIF_C18_ONLY)")
    ex_bits = ctx.scale(10, 12)
    n_rand = ctx.scale(48, 200)
    const_ex_bits_limit = ctx.scale(4, 12)
    CH = 20  # literal calls per generated entity

    tasks, meta = [], []
    for gi, g in enumerate(groups):
        vecs, exh = vectors_for(ctx, g, ex_bits, n_rand)
        g.vecs, g.exh = vecs, exh
        if g.args:
            items = list(enumerate(g.items))
            tasks.append({"src": src_port(g, items), "inputs": [(f"p{i}", (0 if k == "bit" else w)) for i, (k, w) in enumerate(g.args)],
                          "vectors": vecs, "outputs": [f"o{j}" for j, _ in items]})
            meta.append(("port", gi, None))
        cvecs = const_vectors(ctx, g, vecs, exh, const_ex_bits_limit)
        cells = [(j, it, vec) for vec in cvecs for j, it in enumerate(g.items) if it.valid is None or it.valid(vec)]
        for c0 in range(0, len(cells), CH):
            chunk = cells[c0:c0 + CH]
            named = [(f"o{i}", it, vec) for i, (j, it, vec) in enumerate(chunk)]
            tasks.append({"src": src_const(g, named), "inputs": [], "vectors": [[]], "outputs": [n for n, _, _ in named]})
            meta.append(("const", gi, chunk))

    res = fork_map(run_entity, tasks)

    # --- isolate failing wrappers: one helper call per entity (literal variant: first value of each helper
    #     configuration in the chunk; the other values of the configurations that do work are re-run together)
    iso_tasks, iso_meta = [], []
    for (variant, gi, chunk), task, r in zip(meta, tasks, res):
        if r[0] == "ok" and r[1]["ok"]:
            continue
        g = groups[gi]
        if variant == "port":
            for j, it in enumerate(g.items):
                iso_tasks.append({"src": src_port(g, [(0, it)]), "inputs": task["inputs"], "vectors": g.vecs, "outputs": ["o0"]})
                iso_meta.append(("port", gi, j, None, None))
        else:
            seen = set()
            for j, it, vec in chunk:
                if j in seen:
                    continue
                seen.add(j)
                iso_tasks.append({"src": src_const(g, [("o0", it, vec)]), "inputs": [], "vectors": [[]], "outputs": ["o0"]})
                iso_meta.append(("const", gi, j, vec, [c for c in chunk if c[0] == j and c[2] != vec]))
    iso_res = fork_map(run_entity, iso_tasks) if iso_tasks else []
    skipped = {}      # (helper, variant) -> number of further calls of a failing configuration that were not attempted
    for (variant, gi, j, vec, rest), r in zip(list(iso_meta), iso_res):
        if variant != "const" or not rest:
            continue
        g = groups[gi]
        if r[0] == "ok" and r[1]["ok"]:
            named = [(f"o{i}", it, v) for i, (_, it, v) in enumerate(rest)]
            tasks.append({"src": src_const(g, named), "inputs": [], "vectors": [[]], "outputs": [n for n, _, _ in named]})
            meta.append(("const", gi, rest))
        else:
            skipped[(g.items[j].helper, variant)] = skipped.get((g.items[j].helper, variant), 0) + len(rest)
    n_first = len(res)
    if len(tasks) > n_first:
        res = res + fork_map(run_entity, tasks[n_first:])
    iso_meta = [m[:4] for m in iso_meta]

    # --- collect observations: (gi, item index, variant, vec) -> value
    obs = []          # (gi, j, variant, vec, value)
    failures = {}     # (helper, variant, errclass) -> [first (gi, j, vec, err, src)]
    for (variant, gi, chunk), task, r in zip(meta, tasks, res):
        if not (r[0] == "ok" and r[1]["ok"]):
            continue
        g = groups[gi]
        rows = r[1]["rows"]
        if variant == "port":
            for vec, row in zip(g.vecs, rows):
                for j, it in enumerate(g.items):
                    if it.valid is None or it.valid(vec):
                        obs.append((gi, j, "port", vec, row[j]))
        else:
            for (j, it, vec), val in zip(chunk, rows[0]):
                obs.append((gi, j, "const", vec, val))
    for (variant, gi, j, vec), task, r in zip(iso_meta, iso_tasks, iso_res):
        g = groups[gi]
        it = g.items[j]
        if r[0] == "ok" and r[1]["ok"]:
            rows = r[1]["rows"]
            if variant == "port":
                for v, row in zip(g.vecs, rows):
                    if it.valid is None or it.valid(v):
                        obs.append((gi, j, "port", v, row[0]))
            else:
                obs.append((gi, j, "const", vec, rows[0][0]))
        else:
            err = ("HarnessError", r[1]) if r[0] != "ok" else (f"{r[1]['stage']}:{r[1]['errtype']}", r[1]["err"])
            failures.setdefault((it.helper, variant, err[0]), []).append((gi, j, vec, err[1], task["src"]))

    n_fail = 0
    for (helper, variant, errc), lst in sorted(failures.items()):
        n_fail += len(lst)
        gi, j, vec, err, src = lst[0]
        g, it = groups[gi], groups[gi].items[j]
        args = None if vec is None else [literal(k, w, v) for (k, w), v in zip(g.args, vec)]
        what = "literal arguments " + ", ".join(args) if args is not None else "port-fed arguments"
        report(f"no-value:{helper}:{variant}:{errc}",
               f"std.{helper} ({it.cfg}) with {what} yields no value: the wrapper `{it.expr}` fails at {errc} ({err[-160:]}); "
               f"{len(lst) + skipped.get((helper, variant), 0)} such call(s) of this helper in this run",
               {"kind": "no-value", "helper": helper, "cfg": it.cfg, "variant": variant, "expr": it.expr, "args": g.args, "vector": vec,
                "src": src, "error": f"{errc}: {err}", "request": it.req(vec if vec is not None else g.vecs[0])})
    ctx.obligation("every generated helper call (literal and port-fed arguments) is compiled and executable",
                   n_fail == 0, detail=f"{len(tasks)} wrappers, {n_fail} helper calls without a value")

    # --- model answers
    req_index, reqs = {}, []
    for gi, j, variant, vec, val in obs:
        rq = groups[gi].items[j].req(vec)
        if rq not in req_index:
            req_index[rq] = len(reqs)
            reqs.append(rq)
    answers = lean_io.query("C18", reqs)

    spec_bad, mirror_bad = {}, 0
    for gi, j, variant, vec, val in obs:
        g = groups[gi]
        it = g.items[j]
        rq = it.req(vec)
        ans = answers[req_index[rq]]
        spec, mirror = it.expected(ans)
        if spec is None or spec == "bad-op":
            raise InfraError(f"model driver rejects the request `{rq}`: {ans}")
        got = canon(it, val)
        ctx.case(key=(it.helper, it.cfg, variant, tuple(vec)), nontrivial=True, kind=it.helper,
                 sample={"helper": it.helper, "cfg": it.cfg, "variant": variant, "args": vec, "observed": got, "spec": spec})
        ctx.dist["variant:" + variant] += 1
        if got != spec:
            spec_bad.setdefault((it.helper, it.cfg, variant), []).append((vec, spec, got, gi, j, rq))
        if got != mirror:
            mirror_bad += 1
    ctx.dist["input-space:exhaustive-groups"] = sum(1 for g in groups if g.exh)
    ctx.dist["input-space:sampled-groups"] = sum(1 for g in groups if not g.exh)

    for (helper, cfg, variant), lst in sorted(spec_bad.items()):
        lst.sort(key=lambda x: (sum(bin(v).count("1") for v in x[0]), x[0]))
        vec, spec, got, gi, j, rq = lst[0]
        g, it = groups[gi], groups[gi].items[j]
        args = [literal(k, w, v) for (k, w), v in zip(g.args, vec)]
        report(f"value:{helper}:{cfg}:{variant}",
               f"std.{helper} ({cfg}, {variant} arguments): `{it.expr.format(*args)}` = {got}, its definition gives {spec} (width:value); "
               f"{len(lst)} failing argument value(s) for this configuration",
               {"kind": "value", "helper": helper, "cfg": cfg, "variant": variant, "expr": it.expr, "args": g.args, "vector": vec,
                "out": it.out, "sel": it.sel, "plain": it.plain, "request": rq, "expected": spec, "observed": got,
                "src": single_src(g, it, vec, variant)})
    n_spec_bad = sum(len(v) for v in spec_bad.values())
    ctx.obligation("correspondence: value of every helper call (literal arguments folded by the tracer, and port-fed arguments in emitted VHDL) = Lean SPEC",
                   n_spec_bad == 0, detail=f"{len(obs)} evaluations, {n_spec_bad} differences in {len(spec_bad)} configurations")
    ctx.obligation("diagnostic: Lean MIRROR of the Python code = observed value on every evaluation (the model still mirrors the code)",
                   mirror_bad == 0, detail=f"{mirror_bad} differences")
    ctx.extra["reports_suppressed"] = max(0, reports[0] - MAX_REPORTS)

    # --- arguments the definitions exclude: model `reject` <-> the real helper raises
    rej_tasks = [{"src": make_src([], [("o0", ow, ex)]), "inputs": [], "vectors": [[]], "outputs": ["o0"]} for _, ex, _, ow in REJECTS]
    rej_res = fork_map(run_entity, rej_tasks)
    rej_ans = lean_io.query("C18", [rq for _, _, rq, _ in REJECTS])
    rej_bad = []
    for (helper, ex, rq, _), r, a in zip(REJECTS, rej_res, rej_ans):
        accepted = r[0] == "ok" and r[1]["ok"]
        ctx.case(key=("reject", ex), nontrivial=True, kind="excluded-arguments")
        if accepted or a != "reject reject":
            rej_bad.append(f"{ex}: compiler {'accepts' if accepted else 'rejects'}, model {a}")
    ctx.obligation("diagnostic: arguments excluded by the guards of the theorems are rejected by the real helpers (and by mirror and spec)",
                   not rej_bad, detail="; ".join(rej_bad) or f"{len(REJECTS)} calls")

    if not only or "crc" in only:
        run_crc(ctx, report)
    ctx.exhaustive = False


def replay(ctx, data):
    r = data["replay"]
    if r.get("kind") == "crc":
        w, poly, init, k, inv, single = r["cfg"] if "cfg" in r else (None,) * 6
        res = run_entity({"src": r["src"], "inputs": [("data", k)] if k else [], "vectors": [[x] for x in r["words"]], "outputs": ["o"], "clock": True})
        print("words   :", r["words"])
        print("expected:", r.get("expected"))
        if not res["ok"]:
            print("observed:", res)
            return 1
        print("observed:", res["rows"][-1][0])
        return 0 if res["rows"][-1][0] == r.get("expected") else 1
    variant, args, vec = r["variant"], [tuple(a) for a in r["args"]], r["vector"]
    if variant == "const" or vec is None:
        task = {"src": r["src"], "inputs": [], "vectors": [[]], "outputs": ["o0"]}
    else:
        task = {"src": r["src"], "inputs": [(f"p{i}", (0 if k == "bit" else w)) for i, (k, w) in enumerate(args)], "vectors": [vec], "outputs": ["o0"]}
    res = run_entity(task)
    ans = lean_io.query("C18", [r["request"]])[0]
    print("call    :", r["expr"], "args", vec, f"({variant})")
    print("model   :", ans, "(spec mirror)")
    if not res["ok"]:
        print("observed:", res["stage"], res["errtype"], res["err"])
        return 1
    it = Item(r["helper"], r["cfg"], r["expr"], r.get("out", 1), None, sel=r.get("sel"), plain=r.get("plain", False))
    spec, _ = it.expected(ans)
    got = canon(it, res["rows"][0][0])
    print("expected:", spec)
    print("observed:", got)
    return 0 if got == spec else 1
