"""C05 - type conversions on assignment preserve the value or are rejected.

Ties (all against /repo's current working tree):
 (a) accept/reject matrix: every (assignment form x target type x source) with widths 1..6 is put into a tiny generated
     design and compiled by the real compiler; the decision is compared with the Lean mirror `assignOk`
     (correspondence) and with the Lean spec `allowed` (property): accepted although the property demands rejection
     = VIOLATION.  Sources the property allows but the compiler rejects are over-rejections (notes only).
 (b) every accepted assignment is simulated (harness.vhdl_sim) on ALL source values and compared with the Lean
     `convert` (spec) - a wrong / missing cast in the back end, a truncation or a reinterpretation is a VIOLATION
     with (form, target, source, value) as replay.
 (c) Python level: `_assign` and `__init__` of the primitive types on constant objects over the same matrix.
"""

import itertools
import json
import time

from .common import Ctx, compile_many, fork_map, import_cohdl
from . import lean_io
from .vhdl_sim import Design, VhdlTypeError, VhdlRuntimeError

# ---------------------------------------------------------------------------------------------------
# types and sources (tokens are shared with the Lean driver)
# ---------------------------------------------------------------------------------------------------

VEC = ("bv", "uns", "sgn")


def ty_tok(t):
    return t[0] if len(t) == 1 else f"{t[0]}{t[1]}"


def ty_py(t):
    k = t[0]
    if k == "bit":
        return "Bit"
    if k == "bool":
        return "bool"
    if k == "int":
        return "int"
    return {"bv": "BitVector", "uns": "Unsigned", "sgn": "Signed"}[k] + f"[{t[1]}]"


def ty_width(t):
    return t[1] if t[0] in VEC else 1


def src_tok(s):
    """source token: rt:<ty> | lit:<int> | blit:<0|1> | null | full | str:<bits>"""
    k = s[0]
    if k == "rt":
        return "rt:" + ty_tok(s[1])
    if k == "lit":
        return f"lit:{s[1]}"
    if k == "blit":
        return f"blit:{int(s[1])}"
    if k == "str":
        return f"str:{s[1]}"
    return k


def src_expr(s, port):
    k = s[0]
    if k == "rt":
        return f"self.{port}"
    if k == "lit":
        return str(s[1])
    if k == "blit":
        return "True" if s[1] else "False"
    if k == "str":
        return f'"{s[1]}"'
    return {"null": "Null", "full": "Full"}[k]


def src_values(s):
    """all run-time values of a source (canonical ints: two's complement value for sgn, 0/1 for bit/bool)"""
    if s[0] != "rt":
        return [0]
    t = s[1]
    if t[0] in ("bit", "bool"):
        return [0, 1]
    if t[0] == "int":
        return list(range(-70, 71)) + [127, 128, 255, 256, -128, -129, 1 << 20, -(1 << 20)]
    w = t[1]
    if t[0] == "sgn":
        return list(range(-(1 << (w - 1)), 1 << (w - 1)))
    return list(range(1 << w))


ALL_TYPES = [("bit",), ("bool",)] + [(k, n) for k in VEC for n in range(1, 7)]

# declaration forms: every qualifier x every option that exists in synthesizable contexts (cohdl/_core/_type_qualifier.py
# `_init_replacement` signatures: name, attributes, maybe_uninitialized, Signal also delayed_init; noreset is refused there),
# the std re-exports and std.Value, declarations in a concurrent context and inside a helper function
DECL_FORMS = {
    # form: (context, statement template with {T} {e} {k})
    "init": ("seq", "d{k} = Signal[{T}]({e})"),
    "varinit": ("seq", "d{k} = Variable[{T}]({e})"),
    "tempinit": ("seq", "d{k} = Temporary[{T}]({e})"),
    "init_delayed": ("seq", "d{k} = Signal[{T}]({e}, delayed_init=True)"),
    "init_named": ("seq", "d{k} = Signal[{T}]({e}, name='nm{k}')"),
    "init_attr": ("seq", "d{k} = Signal[{T}]({e}, attributes={{}})"),
    "init_maybe": ("seq", "d{k} = Signal[{T}]({e}, maybe_uninitialized=True)"),
    "init_all": ("seq", "d{k} = Signal[{T}]({e}, name='nm{k}', attributes={{}}, delayed_init=True, maybe_uninitialized=True)"),
    "varinit_named": ("seq", "d{k} = Variable[{T}]({e}, name='nm{k}', attributes={{}}, maybe_uninitialized=True)"),
    "tempinit_named": ("seq", "d{k} = Temporary[{T}]({e}, name='nm{k}')"),
    "std_signal": ("seq", "d{k} = std.Signal[{T}]({e})"),
    "std_variable": ("seq", "d{k} = std.Variable[{T}]({e})"),
    "std_temporary": ("seq", "d{k} = std.Temporary[{T}]({e})"),
    "std_value": ("seq", "d{k} = std.Value[{T}]({e})"),
    "init_conc": ("conc", "d{k} = Signal[{T}]({e})"),
    "init_conc_delayed": ("conc", "d{k} = Signal[{T}]({e}, delayed_init=True)"),
    "tempinit_conc": ("conc", "d{k} = Temporary[{T}]({e})"),
    "init_fn": ("fn", "Signal[{T}](v)"),
    "init_fn_delayed": ("fn", "Signal[{T}](v, delayed_init=True)"),
    "varinit_fn": ("fn", "Variable[{T}](v)"),
}
FORMS_SIMPLE = ["next_op", "next_attr", "push_op", "push_attr", "value_op", "value_attr", "copy_next"] + list(DECL_FORMS)
FORMS_SUB = ["slice_bv", "slice_uns", "slice_sgn", "elem_bv", "elem_uns", "elem_sgn"]
FORMS_VIEW = [f"view_{v}_{r}" for v in VEC for r in VEC if v != r]  # view kind, root kind
FORMS_PORT = ["port_in", "port_out"]
FORMS_MERGE = ["ifexp", "ret", "select"]

# ---------------------------------------------------------------------------------------------------
# design generation: one entity holds many independent items (each with its own ports)
# ---------------------------------------------------------------------------------------------------

HEADER = '''
import cohdl
from cohdl import std, Bit, BitVector, Unsigned, Signed, Port, Signal, Variable, Temporary, Null, Full, select_with
'''


def default_of(t):
    return "False" if t[0] == "bool" else "Null"


class Item:
    """one assignment: form, target type (for sub-forms: the type of the slice/element/view), sources"""

    def __init__(self, form, target, srcs):
        self.form, self.target = form, tuple(target)
        self.srcs = [tuple(tuple(x) if isinstance(x, list) else x for x in s) for s in srcs]

    def key(self):
        return (self.form, ty_tok(self.target), *[src_tok(s) for s in self.srcs])

    def sig(self):
        return ":".join(self.key())

    def to_json(self):
        return {"form": self.form, "target": list(self.target), "srcs": [list(s) for s in self.srcs]}

    @staticmethod
    def from_json(d):
        return Item(d["form"], tuple(d["target"]), [tuple(s) for s in d["srcs"]])

    # the declared type of the output port and how the converted value is read back from it
    def out_type(self):
        f, t = self.form, self.target
        if f.startswith("slice_"):
            return (f[6:], t[1] + 2)
        if f.startswith("elem_"):
            return (f[5:], 3)
        if f.startswith("view_"):
            # target = type of the view; the root is a vector of another kind and the same width
            return (f.split("_")[2], t[1])
        return t

    def read(self, raw):
        """raw = Design.get(o) -> canonical value of the TARGET type (or None)"""
        if raw is None:
            return None
        f, t = self.form, self.target
        if isinstance(raw, bool):
            raw = int(raw)
        if f.startswith("slice_"):
            w = t[1]
            return ((raw % (1 << (w + 2))) >> 1) & ((1 << w) - 1)
        if f.startswith("elem_"):
            return ((raw % 8) >> 1) & 1
        if f.startswith("view_"):
            w = t[1]
            n = raw % (1 << w)
            if t[0] == "sgn" and n >= (1 << (w - 1)):
                n -= 1 << w
            return n
        return raw


# view form: `o.unsigned <<= src` etc.; the view of kind V exists on roots of the two other kinds
VIEW_ATTR = {"uns": "unsigned", "sgn": "signed", "bv": "bitvector"}


def build_design(items, name="E"):
    """-> source text of an entity `name` containing all items (item k uses ports i<k>[a|b], o<k>)"""
    ports, pre_classes, pre_funcs, arch, conc, seq, own = [], [], [], [], [], [], []
    need_c = False
    for k, it in enumerate(items):
        f, t = it.form, it.target
        o = f"o{k}"
        exprs = []
        for j, s in enumerate(it.srcs):
            p = f"i{k}" + ("abc"[j] if len(it.srcs) > 1 else "")
            if s[0] == "rt":
                ports.append(f"    {p} = Port.input({ty_py(s[1])})")
            exprs.append(src_expr(s, p))
        ot = it.out_type()
        if f in ("push_op", "push_attr"):
            ports.append(f"    {o} = Port.output({ty_py(ot)}, default={default_of(ot)})")
        else:
            ports.append(f"    {o} = Port.output({ty_py(ot)})")
        e = exprs[0]
        if f == "next_op":
            conc.append(f"self.{o} <<= {e}")
        elif f == "next_attr":
            conc.append(f"self.{o}.next = {e}")
        elif f == "push_op":
            seq.append(f"self.{o} ^= {e}")
        elif f == "push_attr":
            seq.append(f"self.{o}.push = {e}")
        elif f == "value_op":
            seq += [f"v{k} = Variable[{ty_py(t)}]()", f"v{k} @= {e}", f"self.{o} <<= v{k}"]
        elif f == "value_attr":
            seq += [f"v{k} = Variable[{ty_py(t)}]()", f"v{k}.value = {e}", f"self.{o} <<= v{k}"]
        elif f == "copy_next":
            conc.append(f"self.{o} <<= {e}.copy()" if it.srcs[0][0] == "rt" else f"self.{o} <<= {e}")
        elif f in DECL_FORMS:
            where, tmpl = DECL_FORMS[f]
            if where == "fn":
                pre_funcs.append(f"def mk{k}(v):\n    return {tmpl.format(T=ty_py(t), k=k)}\n")
                seq += [f"d{k} = mk{k}({e})", f"self.{o} <<= d{k}"]
            else:
                (seq if where == "seq" else conc).extend([tmpl.format(T=ty_py(t), e=e, k=k), f"self.{o} <<= d{k}"])
        elif f.startswith("slice_"):
            w = t[1]
            conc += [f"self.{o}[{w}:1] <<= {e}", f"self.{o}[0] <<= False", f"self.{o}[{w + 1}] <<= False"]
        elif f.startswith("elem_"):
            conc += [f"self.{o}[1] <<= {e}", f"self.{o}[0] <<= False", f"self.{o}[2] <<= False"]
        elif f.startswith("view_"):
            conc.append(f"self.{o}.{VIEW_ATTR[f.split('_')[1]]} <<= {e}")
        elif f == "port_in":
            pre_classes.append(SUB_SRC.format(N=f"{name}Sub{k}", T=ty_py(t)))
            arch.append(f"{name}Sub{k}(a={e}, q=self.{o})")
        elif f == "port_out":
            s = it.srcs[0]
            assert s[0] == "rt"
            pre_classes.append(SUB_SRC.format(N=f"{name}Sub{k}", T=ty_py(s[1])))
            arch.append(f"{name}Sub{k}(a={e}, q=self.{o})")
        elif f == "ifexp":
            need_c = True
            if len(exprs) == 2:
                conc.append(f"self.{o} <<= {exprs[0]} if self.c else {exprs[1]}")
            else:
                conc.append(f"self.{o} <<= {exprs[0]} if self.c else ({exprs[1]} if self.c2 else {exprs[2]})")
        elif f == "ret":
            need_c = True
            # one process per item: a traced `if`/`return` duplicates everything that follows it in the same context
            if len(exprs) == 2:
                pre_funcs.append(f"def f{k}(c, a, b):\n    if c:\n        return a\n    else:\n        return b\n")
                own.append((k, f"self.{o} <<= f{k}(self.c, {exprs[0]}, {exprs[1]})"))
            else:
                pre_funcs.append(f"def f{k}(c, c2, a, b, d):\n    if c:\n        return a\n    else:\n        if c2:\n            return b\n"
                                 f"        else:\n            return d\n")
                own.append((k, f"self.{o} <<= f{k}(self.c, self.c2, {exprs[0]}, {exprs[1]}, {exprs[2]})"))
        elif f == "select":
            need_c = True
            if len(exprs) == 2:
                conc.append(f'self.{o} <<= select_with(self.cb, {{"1": {exprs[0]}}}, default={exprs[1]})')
            else:
                conc.append(f'self.{o} <<= select_with(self.cs, {{"10": {exprs[0]}, "01": {exprs[1]}}}, default={exprs[2]})')
        else:
            raise AssertionError(f)
    lines = [HEADER] + pre_classes + pre_funcs
    lines.append(f"class {name}(cohdl.Entity):")
    lines.append("    clk = Port.input(Bit)")
    if need_c:
        lines.append("    c = Port.input(bool)")
        lines.append("    c2 = Port.input(bool)")
        lines.append("    cb = Port.input(Bit)")
        lines.append("    cs = Port.input(BitVector[2])")
    lines += ports
    lines.append("    def architecture(self):")
    lines += ["        " + a for a in arch] or []
    if conc:
        lines.append("        @std.concurrent")
        lines.append("        def logic():")
        lines += ["            " + c for c in conc]
    if seq:
        lines.append("        @std.sequential(std.Clock(self.clk))")
        lines.append("        def proc():")
        lines += ["            " + c for c in seq]
    for k, stmt in own:
        lines.append("        @std.sequential(std.Clock(self.clk))")
        lines.append(f"        def proc{k}():")
        lines.append("            " + stmt)
    if not (arch or conc or seq or own):
        lines.append("        pass")
    return "\n".join(lines) + "\n"


SUB_SRC = '''
class {N}(cohdl.Entity):
    a = Port.input({T})
    q = Port.output({T})
    def architecture(self):
        @std.concurrent
        def logic():
            self.q <<= self.a
'''


def simulate(task):
    """task = (vhdl, [item json]) -> per item: list of [inputs..., observed] or ('err', kind, msg)"""
    vhdl, items = task
    items = [Item.from_json(d) for d in items]
    try:
        d = Design(vhdl)
    except (VhdlTypeError, VhdlRuntimeError) as e:
        return [("err", type(e).__name__, str(e)[:300])] * len(items)
    pnames = {p[0].lower() for p in d.ports()}
    # value schedule: step j drives every input with the j-th element of its value list (cyclic); merges use
    # both selector values
    per_item_vals = [[src_values(s) for s in it.srcs] for it in items]
    nsteps = max([1] + [max(len(v) for v in vs) for vs in per_item_vals])
    nopt = max(len(it.srcs) for it in items)
    # a Signal declared with delayed_init in a clocked context receives its value by a signal assignment: the copy to
    # the output port sees it one clock later
    nclk = 2 if any(it.form in ("init_delayed", "init_all", "init_fn_delayed") for it in items) else 1
    out = [[] for _ in items]
    for p in pnames:
        if p == "clk" or p in ("c", "c2", "cb", "cs"):
            d.set(p, 0)
    first = True
    mult = (1, 3, 5)
    # choice ci = index of the alternative that is taken (rows are [ci, value of every alternative ..., observed])
    for ci in range(nopt):
        for j in range(nsteps):
            cur = []
            if "c" in pnames:
                d.set("c", ci == 0)
                d.set("c2", ci == 1)
                d.set("cb", 1 if ci == 0 else 0)
                d.set("cs", {0: 2, 1: 1}.get(ci, 0))
            for k, it in enumerate(items):
                vals = []
                for jj, s in enumerate(it.srcs):
                    vl = per_item_vals[k][jj]
                    # the alternatives walk through their values in different orders so that they differ
                    v = vl[(j * mult[jj] + jj) % len(vl)]
                    vals.append(v)
                    if s[0] == "rt":
                        d.set(f"i{k}" + ("abc"[jj] if len(it.srcs) > 1 else ""), v if s[1][0] != "bool" else bool(v))
                cur.append(vals)
            try:
                if first:
                    d.initialise()
                    first = False
                d.settle()
                d.clock("clk", cycles=nclk)
            except VhdlTypeError as e:
                return [("err", type(e).__name__, str(e)[:300])] * len(items)
            except VhdlRuntimeError as e:
                # a run-time error of this step (e.g. to_unsigned of a negative integer): recorded as value "err"
                for k, it in enumerate(items):
                    if ci < len(it.srcs):
                        out[k].append([ci] + cur[k] + ["err:" + str(e)[:60]])
                continue
            for k, it in enumerate(items):
                # an item with fewer alternatives takes its last one for the remaining choices: not recorded twice
                if ci < len(it.srcs):
                    out[k].append([ci] + cur[k] + [it.read(d.get(f"o{k}"))])
    return out


# ---------------------------------------------------------------------------------------------------
# compile many tiny designs in one forked interpreter (a fork per rejected design is far too slow for a
# matrix with thousands of rejections).  A rejected design could leave compiler state behind, so every
# batch ends with a canary design that must still compile to the reference text; a batch whose canary fails
# is recompiled with one fresh interpreter per design.  Every decision that disagrees with the model is
# re-confirmed in a fresh interpreter before it is reported.
# ---------------------------------------------------------------------------------------------------


def lean_form(form):
    if form in ("next_op", "next_attr", "push_op", "push_attr", "value_op", "value_attr", "copy_next"):
        return "assign"
    if form in DECL_FORMS:
        return "init"
    if form.startswith(("slice_", "elem_")):
        return "sub_" + form.split("_")[1]
    if form.startswith("view_"):
        return "view_" + form.split("_")[2]
    return form  # port_in, port_out


def canary_items():
    return [Item("next_op", ("uns", 4), [("rt", ("uns", 3))]), Item("value_op", ("sgn", 4), [("rt", ("uns", 3))]),
            Item("ifexp", ("uns", 4), [("rt", ("uns", 4)), ("lit", 3)]), Item("port_in", ("bit",), [("rt", ("bit",))])]


def compile_batch(task):
    """task = [design source, ...] (entity E) -> {"res": [...], "canary": vhdl text or None}"""
    from .common import compile_task

    res = [compile_task((src, "E")) for src in task]
    c = compile_task((build_design(canary_items()), "E"))
    return {"res": res, "canary": c["vhdl"] if c["ok"] else None}


_REF_CANARY = []


def compile_designs(sources, ctx=None, per_batch=150):
    """-> list of compile results, same order.  Work is dealt to the batches by decreasing source size so that the few big
    grouped designs do not all land in the same forked interpreter."""
    import os

    if not sources:
        return []
    if not _REF_CANARY:
        ref = compile_many([(build_design(canary_items()), "E")])[0]
        if not ref["ok"]:
            raise AssertionError("canary design rejected: " + ref["err"])
        _REF_CANARY.append(ref["vhdl"])
    procs = int(os.environ.get("COHDL_VERIF_PROCS", "0") or 0) or min(16, os.cpu_count() or 4)
    nb = max(1, min(len(sources), max(2 * procs, -(-len(sources) // per_batch))))
    order = sorted(range(len(sources)), key=lambda i: -len(sources[i]))
    idx_batches = [order[k::nb] for k in range(nb)]
    out = fork_map(compile_batch, [[sources[i] for i in ib] for ib in idx_batches], fresh=True, batch=1)
    res = [None] * len(sources)
    for ib, o in zip(idx_batches, out):
        if o[0] == "ok" and o[1]["canary"] == _REF_CANARY[0]:
            for i, r in zip(ib, o[1]["res"]):
                res[i] = r
        else:
            if ctx is not None:
                ctx.notes.append(f"a compile batch of {len(ib)} designs was contaminated (canary changed); recompiled in fresh interpreters")
            for i, r in zip(ib, compile_many([(sources[i], "E") for i in ib])):
                res[i] = r
    return res


# ---------------------------------------------------------------------------------------------------
# matrix
# ---------------------------------------------------------------------------------------------------


def literal_sources(t, rng=None):
    """literal right-hand sides interesting for target t: the representability boundaries"""
    out = [("blit", True), ("blit", False), ("null",), ("full",)]
    k = t[0]
    if k in ("bit", "bool"):
        ks = [-1, 0, 1, 2]
        strs = ["0", "1", "01"]
    elif k == "int":
        ks = [-5, 0, 9]
        strs = ["1"]
    else:
        w = t[1]
        if k == "sgn":
            ks = [-(1 << (w - 1)) - 1, -(1 << (w - 1)), -1, 0, (1 << (w - 1)) - 1, 1 << (w - 1)]
        else:
            ks = [-1, 0, (1 << w) - 1, 1 << w]
        if w >= 3:
            ks.append(5 if k != "sgn" or w > 3 else 3)
        strs = ["1" + "0" * (w - 1), "01" * w][:1] + ["1" * (w + 1)] + (["1" * (w - 1)] if w > 1 else [])
    out += [("lit", x) for x in sorted(set(ks))]
    out += [("str", s) for s in strs]
    return out


def single_items(ctx):
    """(form, target, source) for every single-source form"""
    W = range(1, 7)
    vec_types = [(k, n) for k in VEC for n in W]
    base_types = [("bit",), ("bool",)] + vec_types
    rt_sources = [("rt", t) for t in base_types + [("int",)]]
    items = []
    quick = ctx.quick
    for f in FORMS_SIMPLE:
        # quick: the six operator/attribute spellings share `_assign`; the complete width range is explored for
        # `<<=`, `@=` and the declaration form, widths 1..3 and 6 for the other spellings
        full = (not quick) or f in ("next_op", "value_op", "init")
        for t in base_types + [("int",)]:
            if not full and t[0] in VEC and t[1] in (4, 5):
                continue
            for s in rt_sources:
                if not full and s[1][0] in VEC and s[1][1] in (4, 5):
                    continue
                items.append(Item(f, t, [s]))
            for s in literal_sources(t):
                if t[0] == "int" and s[0] in ("null", "full", "str"):
                    continue
                if f == "std_value" and (t[0] == "int" or (t[0] == "bool" and s[0] == "str")):
                    continue  # std.Value[int](literal) / std.Value[bool]("..") call int() / str.__bool__ in the tracer: over-rejections
                items.append(Item(f, t, [s]))
    for f in FORMS_SUB:
        kind = f.split("_")[1]
        if f.startswith("slice"):
            ts = [("bv", n) for n in (W if not quick or kind == "uns" else (1, 2, 3, 6))]
        else:
            ts = [("bit",)]
        for t in ts:
            for s in rt_sources + literal_sources(t):
                if quick and s[0] == "rt" and s[1][0] in VEC and kind != "uns" and s[1][1] in (4, 5):
                    continue
                items.append(Item(f, t, [s]))
    for f in FORMS_VIEW:
        v = f.split("_")[1]
        for n in (W if not quick else (1, 2, 3, 6)):
            t = (v, n)
            for s in rt_sources + literal_sources(t):
                if quick and s[0] == "rt" and s[1][0] in VEC and s[1][1] in (4, 5):
                    continue
                items.append(Item(f, t, [s]))
    for f in FORMS_PORT:
        for t in base_types + [("int",)]:
            for s in rt_sources:
                items.append(Item(f, t, [s]))
    return items


def merge_items(ctx):
    """quick: widths 1..3 (run_merges samples the return / select_with cases); thorough: if-expression widths 1..4,
    return and select_with widths 1..3, all complete"""
    items = []
    for f in FORMS_MERGE:
        W = (1, 2, 3) if (ctx.quick or f != "ifexp") else (1, 2, 3, 4)
        types = [("bit",), ("bool",)] + [(k, n) for k in VEC for n in W]
        srcs = [("rt", t) for t in types] + [("lit", 1), ("lit", 5), ("lit", -1), ("blit", True), ("null",), ("full",)]
        for t in types:
            for a in srcs:
                for b in srcs:
                    items.append(Item(f, t, [a, b]))
    return items


def lean_single(items):
    """-> per item dict(ok, ok0, spec)"""
    req = []
    for it in items:
        f, t, s = lean_form(it.form), ty_tok(it.target), src_tok(it.srcs[0])
        req += [f"ok {f} {t} {s}", f"ok0 {f} {t} {s}", f"spec {t} {s}"]
    ans = lean_io.query("C05", req)
    for a in ans:
        if a == "bad-op":
            raise AssertionError("model driver rejected a request")
    return [{"ok": ans[3 * i] == "1", "ok0": ans[3 * i + 1] == "1", "spec": ans[3 * i + 2]} for i in range(len(items))]


def port_spec(it, m):
    """port connections: data flows actual -> formal for inputs, formal -> actual for outputs: the conversion the
    property speaks about is always (declared type of the receiving side) <- (type of the driving side), which is
    how the items are built (target = receiver)."""
    return m["spec"]


def kind_of_src(s):
    if s[0] == "rt":
        return s[1][0]
    return s[0]


def width_rel(t, s):
    if s[0] == "rt" and s[1][0] in VEC and t[0] in VEC:
        return "eq" if s[1][1] == t[1] else ("narrowing" if s[1][1] > t[1] else "widening")
    return "-"


def form_family(f):
    if f in DECL_FORMS:
        return "declaration"
    if f.startswith("port"):
        return f
    if f.startswith("view"):
        return "view"
    if f.startswith(("slice", "elem")):
        return "slice/element"
    if f in FORMS_MERGE:
        return "merge"
    return "assign"


def cls_of(it):
    """violation class of an item: form family, kinds, width relation (one replay - the smallest - per class)"""
    if any(s == ("rt", ("int",)) for s in it.srcs) and it.target[0] in ("uns", "sgn") and not it.form.startswith("port"):
        return f"runtime-int:{it.target[0]}"
    if it.form.startswith("port"):
        s = it.srcs[0]
        rel = width_rel(it.target, s)
        same_kind = s[0] == "rt" and s[1][0] == it.target[0]
        return f"{it.form}:{rel if same_kind and rel != '-' else 'type-mismatch'}"
    parts = [form_family(it.form), it.target[0]]
    for s in it.srcs:
        parts.append(kind_of_src(s) + ("/" + width_rel(it.target, s) if width_rel(it.target, s) != "-" else ""))
    return ":".join(parts)


def item_size(it):
    return (ty_width(it.target) + sum(ty_width(s[1]) if s[0] == "rt" else 1 for s in it.srcs),
            (len(DECL_FORMS[it.form][1]) + (40 if DECL_FORMS[it.form][0] == "fn" else 0)) if it.form in DECL_FORMS else 0, it.sig())


def chunks(xs, n):
    return [xs[i:i + n] for i in range(0, len(xs), n)]


def sim_group(task):
    vhdl, items = task
    return simulate((vhdl, items))


def run(ctx: Ctx):
    ctx.rule = ("complete matrix (assignment form x target type x source): forms <<= .next ^= .push @= .value, slice and "
                "element targets on BitVector/Unsigned/Signed roots, .unsigned/.signed/.bitvector view targets, Signal/Variable "
                "declarations with initial value, input/output port connections, if-expression / return / select_with merges; "
                "types Bit, bool, int, BitVector/Unsigned/Signed[1..6]; sources: run-time objects of every type, int literals at "
                "the representability boundaries, True/False, Null, Full, bit strings of matching and mismatching length.  Every "
                "case is compiled by the real compiler; every accepted case is simulated on ALL source values.  non-trivial = "
                "the case crosses a type or width boundary (source type != target type); distinct = distinct (form, target, sources)")
    t_stage = time.time()
    stages = ctx.extra.setdefault("stage_seconds", {})
    singles = single_items(ctx)
    model = lean_single(singles)
    if ctx.quick:
        # quick tier: every expected-accepted case (cheap: grouped) and the complete rejected matrix for `<<=`, declarations
        # and ports; a seeded sample of the expected-rejected cases of the other spellings / slices / views
        # (they share `_assign` and `format_cast` with `<<=`); the thorough tier is complete
        full_forms = {"next_op", "init", "port_in", "port_out"}
        keep = []
        for i, (it, m) in enumerate(zip(singles, model)):
            s0 = it.srcs[0]
            if it.form in DECL_FORMS and it.form not in full_forms:
                # the declaration options: every accepted case, every equal-width vector pair the property rejects
                # (the Signed<->Unsigned reinterpretations), a seeded sample of the other rejected cases
                eq_vec = s0[0] == "rt" and s0[1][0] in VEC and it.target[0] in VEC and s0[1][1] == it.target[1]
                if (m["ok"] and m["ok0"]) or (m["spec"] == "reject" and eq_vec) or ctx.rng.random() < 0.12:
                    keep.append(i)
            elif (m["ok"] and m["ok0"]) or it.form in full_forms or m["spec"] == "reject" and ctx.rng.random() < 0.35 \
                    or m["spec"] != "reject" and ctx.rng.random() < 0.2:
                keep.append(i)
        singles = [singles[i] for i in keep]
        model = [model[i] for i in keep]
    ctx.extra["single_cases"] = len(singles)

    # ---- (a) accept / reject ---------------------------------------------------------------------
    grouped = [i for i, m in enumerate(model) if m["ok"] and m["ok0"]]
    alone = [i for i, m in enumerate(model) if not (m["ok"] and m["ok0"])]
    by_form = {}
    for i in grouped:
        # run-time Integer sources get designs of their own: their to_unsigned range errors (known finding) would
        # otherwise poison the simulation step of every other item in the same design
        s0 = singles[i].srcs[0]
        by_form.setdefault((singles[i].form, s0 == ("rt", ("int",)), singles[i].target[0] if s0 == ("rt", ("int",)) else ""), []).append(i)
    groups = []
    for f, idx in by_form.items():
        groups += chunks(idx, 48)
    sources = [build_design([singles[i] for i in g]) for g in groups] + [build_design([singles[i]]) for i in alone]
    res = compile_designs(sources, ctx)
    observed = [None] * len(singles)   # True / False
    vhdl_of = {}                        # item index -> (vhdl, group indices)
    retry = []
    for g, r in zip(groups, res[: len(groups)]):
        if r["ok"]:
            for i in g:
                observed[i] = True
                vhdl_of[i] = (r["vhdl"], g)
        else:
            retry += g
    for i, r in zip(alone, res[len(groups):]):
        observed[i] = r["ok"]
        if r["ok"]:
            vhdl_of[i] = (r["vhdl"], [i])
    if retry:
        rr = compile_designs([build_design([singles[i]]) for i in retry], ctx)
        for i, r in zip(retry, rr):
            observed[i] = r["ok"]
            if r["ok"]:
                vhdl_of[i] = (r["vhdl"], [i])
    # every disagreement with the model or the spec is confirmed in a fresh interpreter
    suspicious = [i for i, m in enumerate(model) if observed[i] != m["ok"] or (observed[i] and m["spec"] == "reject")]
    if suspicious:
        rr = compile_many([(build_design([singles[i]]), "E") for i in suspicious])
        for i, r in zip(suspicious, rr):
            observed[i] = r["ok"]
            if r["ok"]:
                vhdl_of[i] = (r["vhdl"], [i])
            else:
                vhdl_of.pop(i, None)

    mismatch_fixed = [i for i, m in enumerate(model) if observed[i] != m["ok"]]
    mismatch_unpatched = [i for i, m in enumerate(model) if observed[i] != m["ok0"]]
    over_reject = [i for i, m in enumerate(model) if not observed[i] and m["spec"] == "allowed"]
    accepted_reject = [i for i, m in enumerate(model) if observed[i] and m["spec"] == "reject"]
    for i, it in enumerate(singles):
        ctx.case(key=it.key(), nontrivial=not (it.srcs[0][0] == "rt" and it.srcs[0][1] == it.target),
                 kind=f"{form_family(it.form)}:{'accepted' if observed[i] else 'rejected'}",
                 sample={"form": it.form, "target": ty_tok(it.target), "source": src_tok(it.srcs[0]), "accepted": observed[i],
                         "spec": model[i]["spec"]} if i % 997 == 0 else None)
        ctx.dist["spec:" + model[i]["spec"]] += 1
    ctx.obligation("correspondence: compiler accept/reject decision = Lean assignOk (behaviour after the proposed fixes) on the whole matrix",
                   not mismatch_fixed, detail=f"{len(singles)} cases, {len(mismatch_fixed)} differ"
                   + (f"; first: {[singles[i].sig() for i in mismatch_fixed[:6]]}" if mismatch_fixed else ""))
    ctx.extra["decisions_differing_from_unpatched_mirror"] = [singles[i].sig() for i in mismatch_unpatched[:20]]
    ctx.extra["over_rejections"] = len(over_reject)
    ctx.extra["over_rejection_examples"] = sorted({cls_of(singles[i]) for i in over_reject})[:40]

    # property: a must-reject pair that is accepted
    by_cls = {}
    for i in accepted_reject:
        by_cls.setdefault(cls_of(singles[i]), []).append(i)
    for cls, idx in sorted(by_cls.items()):
        i = min(idx, key=lambda j: item_size(singles[j]))
        it = singles[i]
        ctx.report(f"accepts-must-reject:{cls}",
                   f"{it.form}: target {ty_tok(it.target)} <- source {src_tok(it.srcs[0])} must be a compile-time error "
                   f"(property C05) but the design is accepted ({len(idx)} cases of this class)",
                   {"kind": "accept", "item": it.to_json(), "design": build_design([it]), "expected": "rejected", "observed": "accepted",
                    "other_cases": [singles[j].sig() for j in idx[:30]]})
    # a decision that differs from the model without touching a must-reject pair: no failing input of the property
    other = [i for i in mismatch_fixed if i not in set(accepted_reject) and not (not observed[i])]
    other_rej = [i for i in mismatch_fixed if not observed[i]]
    ctx.extra["accepted_beyond_model_not_must_reject"] = [singles[i].sig() for i in other[:40]]
    ctx.extra["rejected_beyond_model"] = [singles[i].sig() for i in other_rej[:40]]

    stages["singles_compile"] = round(time.time() - t_stage, 1)
    t_stage = time.time()
    # ---- (b) values of accepted assignments ----------------------------------------------------
    seen, tasks, task_idx = set(), [], []
    for i in sorted(vhdl_of):
        v, g = vhdl_of[i]
        key = (id(v), tuple(g))
        if key in seen:
            continue
        seen.add(key)
        tasks.append((v, [singles[j].to_json() for j in g]))
        task_idx.append(g)
    sims = fork_map(sim_group, tasks, fresh=False, chunk=2)
    rows = {}
    resim = []
    for g, s in zip(task_idx, sims):
        if s[0] != "ok":
            raise AssertionError("simulation task failed: " + s[1])
        for i, r in zip(g, s[1]):
            homogeneous_int = all(singles[j].srcs[0] == ("rt", ("int",)) for j in g)
            if len(g) > 1 and ((isinstance(r, tuple) and r and r[0] == "err") or (any(isinstance(x[-1], str) for x in r) and not homogeneous_int)):
                resim.append(i)
            else:
                rows[i] = r
    if resim:
        # an error in one item stops the whole design: simulate each item of such a design on its own
        rr = compile_designs([build_design([singles[i]]) for i in resim], ctx)
        t2 = [(r["vhdl"], [singles[i].to_json()]) for i, r in zip(resim, rr) if r["ok"]]
        i2 = [i for i, r in zip(resim, rr) if r["ok"]]
        for i, s in zip(i2, fork_map(sim_group, t2, fresh=False, chunk=4)):
            if s[0] != "ok":
                raise AssertionError("simulation task failed: " + s[1])
            rows[i] = s[1][0]
    req, where = [], []
    for i, r in rows.items():
        it = singles[i]
        if isinstance(r, tuple):
            continue
        s = it.srcs[0]
        for (sel, x, y) in r:
            if s[0] == "rt":
                req.append(f"conv {ty_tok(it.target)} {ty_tok(s[1])} {x}")
                req.append(f"cast {lean_form(it.form)} {ty_tok(it.target)} {ty_tok(s[1])} {x}")
            else:
                req.append(f"convlit {ty_tok(it.target)} {src_tok(s)}")
                req.append(f"convlit {ty_tok(it.target)} {src_tok(s)}")
            where.append((i, x, y))
    ans = lean_io.query("C05", req)
    bad_value, bad_cast, n_values = {}, [], 0
    for k, (i, x, y) in enumerate(where):
        exp, cast = ans[2 * k], ans[2 * k + 1]
        n_values += 1
        got = "-" if y is None else str(y)
        if exp == "none":
            continue  # the specification defines no value (e.g. a bit string into bool)
        if got != exp:
            bad_value.setdefault(i, []).append((x, exp, got))
        if singles[i].srcs[0][0] == "rt" and cast not in ("none", "err") and got != cast and not got.startswith("err"):
            bad_cast.append((singles[i].sig(), x, cast, got))
    ill = {i: r for i, r in rows.items() if isinstance(r, tuple)}
    ctx.extra["simulated_values"] = n_values
    by_cls = {}
    for i in bad_value:
        by_cls.setdefault(cls_of(singles[i]), []).append(i)
    for cls, idx in sorted(by_cls.items()):
        i = min(idx, key=lambda j: item_size(singles[j]))
        it = singles[i]
        x, exp, got = bad_value[i][0]
        ctx.report(f"value:{cls}",
                   f"{it.form}: target {ty_tok(it.target)} <- source {src_tok(it.srcs[0])} is accepted but source value {x} arrives as "
                   f"{got} (conversion keeps {exp}); {len(idx)} cases of this class",
                   {"kind": "value", "item": it.to_json(), "design": build_design([it]), "input": x, "expected": exp, "observed": got,
                    "all_wrong_values": bad_value[i][:16], "other_cases": [singles[j].sig() for j in idx[:30]]})
    by_cls = {}
    for i in ill:
        by_cls.setdefault(cls_of(singles[i]), []).append(i)
    for cls, idx in sorted(by_cls.items()):
        i = min(idx, key=lambda j: item_size(singles[j]))
        it = singles[i]
        ctx.report(f"ill-typed:{cls}",
                   f"{it.form}: target {ty_tok(it.target)} <- source {src_tok(it.srcs[0])} is accepted but the emitted VHDL cannot be "
                   f"elaborated/executed: {ill[i][1]}: {ill[i][2]} ({len(idx)} cases of this class)",
                   {"kind": "ill-typed", "item": it.to_json(), "design": build_design([it]), "expected": "rejected or a value preserving cast",
                    "observed": list(ill[i]), "other_cases": [singles[j].sig() for j in idx[:30]]})
    ctx.obligation("correspondence: simulated value of every accepted assignment = Lean convert (spec) on all source values",
                   not bad_value and not ill, detail=f"{n_values} values of {len(rows)} accepted cases; {len(bad_value)} cases with a wrong value, {len(ill)} ill-typed")
    ctx.obligation("correspondence: simulated value = value of the cast chosen by Lean castModel (mirror of format_cast)",
                   not bad_cast, detail=f"{len(bad_cast)} differ" + (f"; first {bad_cast[:4]}" if bad_cast else ""))

    cast_only = sorted({sig for (sig, x, cast, got) in bad_cast} - {singles[i].sig() for i in list(bad_value) + list(ill)})
    if cast_only:
        first = next(b for b in bad_cast if b[0] == cast_only[0])
        it = next(singles[i] for i in rows if singles[i].sig() == cast_only[0])
        ctx.report(f"correspondence:cast:{cls_of(it)}",
                   f"{len(cast_only)} accepted assignments produce a value that is a permitted conversion but not the value of the cast "
                   f"Lean castModel predicts; first {first[0]}: source value {first[1]}, model {first[2]}, observed {first[3]}",
                   {"kind": "correspondence", "item": it.to_json(), "design": build_design([it]), "theorem": "C05.cast_preserves_partial speaks about castModel",
                    "input": first[1], "expected": first[2], "observed": first[3], "cases": cast_only[:40]}, no_failing_input=True)
    # decisions that differ from the mirror without any failing input of the property (e.g. an over-rejection):
    # the property is no longer shown by the theorems about the mirror
    explained = set(accepted_reject) | set(bad_value) | set(ill)
    unexplained = [i for i in mismatch_fixed if i not in explained]
    if unexplained:
        i = min(unexplained, key=lambda j: item_size(singles[j]))
        it = singles[i]
        ctx.report(f"correspondence:accept-matrix:{cls_of(it)}:{'accepted' if observed[i] else 'rejected'}",
                   f"{len(unexplained)} accept/reject decisions differ from Lean assignOk without a value-level failure, first {it.sig()}: "
                   f"compiler {'accepts' if observed[i] else 'rejects'}, model {'accepts' if model[i]['ok'] else 'rejects'} (spec: {model[i]['spec']})",
                   {"kind": "correspondence", "item": it.to_json(), "design": build_design([it]), "theorem": "C05.accepted_never_must_reject / C05.assignOk_iff_allowed speak about assignOk",
                    "expected": model[i]["ok"], "observed": observed[i], "cases": [singles[j].sig() for j in unexplained[:40]]},
                   no_failing_input=True)

    stages["singles_values"] = round(time.time() - t_stage, 1)
    t_stage = time.time()
    run_merges(ctx)
    stages["merges"] = round(time.time() - t_stage, 1)
    t_stage = time.time()
    run_python_level(ctx)
    stages["python_level"] = round(time.time() - t_stage, 1)
    ctx.exhaustive = not ctx.quick


# ---------------------------------------------------------------------------------------------------
# merges: if-expression (also nested), helper function with several returns, select_with - two or three alternatives
# ---------------------------------------------------------------------------------------------------
#
# What the property demands of an accepted merge `target <<= merge(alt_0 .. alt_n)`, for the alternative that is
# taken at run time:
#   * Null / Full fill the TARGET with zeros / ones (they have no width of their own), whatever the other
#     alternatives are;
#   * a typed run-time alternative and an int / bool literal arrive converted by permitted conversions, either
#     directly (alternative -> target) or through ONE common join type R (alternative -> R -> target, every step
#     not in `mustReject`); R must be the same for all alternatives.
# The mirror (Lean tryJoin / mergeOk / nestedOk) predicts the decision and R; it is only a correspondence - the
# verdict comes from the rule above, trying every candidate R.


def row_parts(row):
    """row = [ci, x_0 .. x_{n-1}, y] -> (ci, x of the taken alternative, y)"""
    ci = row[0]
    return ci, row[1 + ci], row[-1]


def chain_expected(items_rows, cand_of):
    """items_rows: [(item, rows)], cand_of(item) -> join type tuple or None (alternatives go to the target directly).
    -> {id(item): [(ci, x, y, expected | 'none')]}"""
    req1, plan = [], []
    for it, rows in items_rows:
        R = cand_of(it)
        for row in rows:
            ci, x, y = row_parts(row)
            s = it.srcs[ci]
            through = R if (R is not None and s[0] not in ("null", "full")) else None
            recv = through if through is not None else it.target
            if s[0] == "rt":
                req1.append(f"conv {ty_tok(recv)} {ty_tok(s[1])} {x}")
            else:
                req1.append(f"convlit {ty_tok(recv)} {src_tok(s)}")
            plan.append((it, through, ci, x, y))
    a1 = lean_io.query("C05", req1)
    req2 = []
    for (it, through, ci, x, y), v in zip(plan, a1):
        if through is None or v == "none":
            req2.append(f"conv {ty_tok(it.target)} {ty_tok(it.target)} {v if v != 'none' else 0}")
        else:
            req2.append(f"conv {ty_tok(it.target)} {ty_tok(through)} {v}")
    a2 = lean_io.query("C05", req2)
    out = {}
    for (it, through, ci, x, y), v1, v2 in zip(plan, a1, a2):
        out.setdefault(id(it), []).append((ci, x, y, "none" if v1 == "none" else v2))
    return out


def merge_steps_spec(it, R):
    """spec verdicts of the conversion steps of a merge through join type R (None = alternatives go to the target)"""
    req = []
    for s in it.srcs:
        recv = it.target if (R is None or s[0] in ("null", "full")) else R
        req.append(f"spec {ty_tok(recv)} {src_tok(s)}")
    if R is not None:
        req.append(f"spec {ty_tok(it.target)} rt:{ty_tok(R)}")
    return lean_io.query("C05", req)


def parse_ty_tok(tok):
    if tok in ("bit", "bool", "int"):
        return (tok,)
    for k in ("uns", "sgn", "bv"):
        if tok.startswith(k):
            return (k, int(tok[len(k):]))
    raise ValueError(tok)


def fmt(y):
    return "-" if y is None else str(y)


def explains(it, rows, R):
    """does join type R (None = direct) make every step a permitted conversion and every observed value right?"""
    if "reject" in merge_steps_spec(it, R):
        return False
    e = chain_expected([(it, rows)], lambda _: R)[id(it)]
    return all(ex != "none" and fmt(y) == ex for (ci, x, y, ex) in e)


def merge_candidates(it):
    return [None] + sorted({s[1] for s in it.srcs if s[0] == "rt"} | {("bool",)})


def literal_position_items(ctx):
    """Null / Full / int / bool literals in EVERY position (first, middle, last) next to typed alternatives of every kind
    and width, targets of equal and strictly larger width of every compatible kind; 2 and 3 alternatives; all three
    merge constructs"""
    quick = ctx.quick
    widths = (1, 2, 4) if quick else (1, 2, 3, 4, 5, 6)
    items = []
    for f in FORMS_MERGE:
        for K in VEC:
            for m in widths:
                A = ("rt", (K, m))
                wider = sorted({m, min(6, m + 1), 6} if quick else set(range(m, 7)))
                targets = [(K, n) for n in wider]
                if K == "uns":
                    targets += [("sgn", n) for n in wider if n > m]
                if K == "bv":
                    targets += [("uns", m), ("sgn", m)]
                else:
                    targets += [("bv", m)]
                lits = [("null",), ("full",), ("lit", 1), ("blit", True)]
                if not quick:
                    lits += [("lit", 0), ("lit", (1 << (m - 1)) - 1 if K == "sgn" else (1 << m) - 1)] + ([("lit", -1)] if K == "sgn" else [])
                for t in targets:
                    for L in lits:
                        for n in (2, 3):
                            for pos in range(n):
                                srcs = [A] * n
                                srcs[pos] = L
                                items.append(Item(f, t, srcs))
                        if not quick and m > 1:
                            A2 = ("rt", (K, m - 1))
                            for srcs in ([A, L, A2], [A2, A, L], [L, A2, A]):
                                items.append(Item(f, t, srcs))
        for A in (("rt", ("bit",)), ("rt", ("bool",))):
            for t in (("bit",), ("bool",)):
                for L in (("null",), ("full",), ("lit", 0), ("lit", 1), ("blit", True), ("blit", False)):
                    for n in (2, 3):
                        for pos in range(n):
                            srcs = [A] * n
                            srcs[pos] = L
                            items.append(Item(f, t, srcs))
    return items


def merge_model(items):
    """-> (expected accept per item, join type per item (None = no join / unknown for nested if-expressions))"""
    req = []
    for it in items:
        toks = [src_tok(s) for s in it.srcs]
        if it.form == "ifexp" and len(toks) == 3:
            req += [f"nested {ty_tok(it.target)} " + " ".join(toks), "join " + " ".join(toks)]
        else:
            req += [f"merge {ty_tok(it.target)} " + " ".join(toks), "join " + " ".join(toks)]
    ans = lean_io.query("C05", req)
    if "bad-op" in ans:
        raise AssertionError("model driver rejected a merge request")
    exp = [ans[2 * i] == "1" for i in range(len(items))]
    join = [None if ans[2 * i + 1] == "none" else parse_ty_tok(ans[2 * i + 1]) for i in range(len(items))]
    return exp, join


def run_merges(ctx):
    t_m = time.time()
    items = merge_items(ctx)
    if ctx.quick:
        small_targets = {("bit",), ("bool",), ("bv", 2), ("uns", 2), ("sgn", 2), ("uns", 3), ("sgn", 3)}
        # pairs of arbitrary alternatives (mostly rejected): seeded samples in the quick tier, complete in thorough;
        # the structured literal-position stream below is complete in both tiers
        first = [it for it in items if it.form == "ifexp" and it.target in small_targets]
        rest = [it for it in items if it.form != "ifexp"]
        items = ctx.rng.sample(first, min(len(first), 500)) + ctx.rng.sample(rest, min(len(rest), 200))
    seen = {it.key() for it in items}
    for it in literal_position_items(ctx):
        if ctx.quick and it.form == "ret":
            # quick: the helper-function form is slow to compile (one process per item): every Null/Full position for the
            # equal-width and the next wider target, a 25% sample of the rest; complete in thorough
            nf = any(s[0] in ("null", "full") for s in it.srcs)
            tw, aw = ty_width(it.target), max([ty_width(s[1]) for s in it.srcs if s[0] == "rt"] or [1])
            if not (nf and tw <= aw + 1) and ctx.rng.random() < 0.75:
                continue
        if it.key() not in seen:
            seen.add(it.key())
            items.append(it)
    exp, join = merge_model(items)
    index = {id(it): i for i, it in enumerate(items)}
    grouped = [i for i in range(len(items)) if exp[i]]
    alone = [i for i in range(len(items)) if not exp[i]]
    by_form = {}
    for i in grouped:
        by_form.setdefault(items[i].form, []).append(i)
    groups = []
    for f, idx in by_form.items():
        groups += chunks(idx, 16 if f == "ret" else 40)
    res = compile_designs([build_design([items[i] for i in g]) for g in groups] + [build_design([items[i]]) for i in alone], ctx)
    observed, vh = [None] * len(items), {}
    retry = []
    for g, r in zip(groups, res[: len(groups)]):
        if r["ok"]:
            for i in g:
                observed[i] = True
                vh[i] = (r["vhdl"], g)
        else:
            retry += g
    for i, r in zip(alone, res[len(groups):]):
        observed[i] = r["ok"]
        if r["ok"]:
            vh[i] = (r["vhdl"], [i])
    if retry:
        for i, r in zip(retry, compile_designs([build_design([items[i]]) for i in retry], ctx)):
            observed[i] = r["ok"]
            if r["ok"]:
                vh[i] = (r["vhdl"], [i])
    sus = [i for i in range(len(items)) if observed[i] != exp[i]]
    if sus:
        for i, r in zip(sus, compile_many([(build_design([items[i]]), "E") for i in sus])):
            observed[i] = r["ok"]
            if r["ok"]:
                vh[i] = (r["vhdl"], [i])
            else:
                vh.pop(i, None)
    ctx.extra.setdefault("stage_seconds", {})["merges_compile"] = round(time.time() - t_m, 1)
    mism = [i for i in range(len(items)) if observed[i] != exp[i]]
    for i, it in enumerate(items):
        ctx.case(key=it.key(), nontrivial=True, kind=f"merge{len(it.srcs)}:{'accepted' if observed[i] else 'rejected'}",
                 sample={"form": it.form, "target": ty_tok(it.target), "sources": [src_tok(s) for s in it.srcs],
                         "accepted": observed[i], "join": None if join[i] is None else ty_tok(join[i])} if i % 1499 == 0 else None)
        for pos, s in enumerate(it.srcs):
            if s[0] != "rt":
                ctx.dist[f"merge-literal:{s[0]}@{('first', 'middle', 'last')[0 if pos == 0 else (2 if pos == len(it.srcs) - 1 else 1)]}"] += 1
    ctx.obligation("correspondence: accept/reject of merged right-hand sides (if-expression, nested if-expression, return, select_with; 2 and 3 alternatives) = Lean mergeOk / nestedOk (mirror of _try_join/_Redirect)",
                   not mism, detail=f"{len(items)} cases, {len(mism)} differ" + (f"; first {[items[i].sig() for i in mism[:6]]}" if mism else ""))
    # ---- values: every accepted merge, all values of every alternative, every branch taken
    seen_t, tasks, tidx = set(), [], []
    for i in sorted(vh):
        v, g = vh[i]
        key = (id(v), tuple(g))
        if key not in seen_t:
            seen_t.add(key)
            tasks.append((v, [items[j].to_json() for j in g]))
            tidx.append(g)
    rows = {}
    for g, s in zip(tidx, fork_map(sim_group, tasks, fresh=False, chunk=2)):
        if s[0] != "ok":
            raise AssertionError("simulation task failed: " + s[1])
        for i, r in zip(g, s[1]):
            rows[i] = r
    err_items = [i for i, r in rows.items() if isinstance(r, tuple) and len(vh[i][1]) > 1]
    if err_items:
        rr = compile_designs([build_design([items[i]]) for i in err_items], ctx)
        ok_i = [i for i, r in zip(err_items, rr) if r["ok"]]
        for i, s in zip(ok_i, fork_map(sim_group, [(r["vhdl"], [items[i].to_json()]) for i, r in zip(err_items, rr) if r["ok"]], fresh=False, chunk=4)):
            rows[i] = s[1][0] if s[0] == "ok" else ("err", "sim", s[1])
    good = [(items[i], r) for i, r in rows.items() if not isinstance(r, tuple)]
    ill = [i for i, r in rows.items() if isinstance(r, tuple)]
    # (1) spec, direct reading first (cheap, batched): every alternative straight into the target
    direct = chain_expected(good, lambda it: None)
    # (2) the mirror's join type
    via_join = chain_expected(good, lambda it: join[index[id(it)]])
    nvals, need_search = 0, []
    for it, r in good:
        i = index[id(it)]
        nvals += len(r)
        ok_direct = all(ex != "none" and fmt(y) == ex for (ci, x, y, ex) in direct[id(it)])
        ok_join = all(ex != "none" and fmt(y) == ex for (ci, x, y, ex) in via_join[id(it)])
        if not (ok_join if join[i] is not None else ok_direct):
            need_search.append(i)
    # (3) the Lean value model `mergeValue` (printed casts through the temporary of the join type; theorem
    #     C05.merge_preserves is about it) for the flat merges
    mreq, mwhere = [], []
    for it, r in good:
        if it.form == "ifexp" and len(it.srcs) == 3:
            continue
        toks = " ".join(src_tok(s) for s in it.srcs)
        for row in r:
            ci, x, y = row_parts(row)
            mreq.append(f"mergeval {ty_tok(it.target)} {ci} {x} {toks}")
            mwhere.append((index[id(it)], fmt(y)))
    mans = lean_io.query("C05", mreq)
    if "bad-op" in mans:
        raise AssertionError("model driver rejected a mergeval request")
    mirror_bad = sorted({i for (i, got), a in zip(mwhere, mans) if a != got})
    # spec verdict of the steps through the mirror's join type, batched
    acc = [i for i in range(len(items)) if observed[i]]
    sreq, sidx = [], []
    for i in acc:
        it, R = items[i], join[i]
        q = [f"spec {ty_tok(it.target if (R is None or s[0] in ('null', 'full')) else R)} {src_tok(s)}" for s in it.srcs] \
            + ([f"spec {ty_tok(it.target)} rt:{ty_tok(R)}"] if R is not None else [])
        sidx.append((i, len(q)))
        sreq += q
    sans = lean_io.query("C05", sreq)
    p = 0
    for i, n in sidx:
        if "reject" in sans[p:p + n]:
            need_search.append(i)
        p += n
    need_search += [i for i in mism if observed[i]]
    viol, explained_other = {}, []
    ctx.extra["merge_join_search_cases"] = len(set(need_search))
    ctx.extra.setdefault("stage_seconds", {})["merges_values"] = round(time.time() - t_m, 1)
    for i in sorted(set(need_search)):
        it, r = items[i], rows.get(i)
        if r is None or isinstance(r, tuple):
            continue
        if any(explains(it, r, R) for R in merge_candidates(it)):
            explained_other.append(i)
        else:
            viol.setdefault(cls_of(it), []).append(i)
    for cls, idx in sorted(viol.items()):
        i = min(idx, key=lambda j: item_size(items[j]))
        it, r = items[i], rows[i]
        d = chain_expected([(it, r)], lambda _: None)[id(it)]
        wrong = [(ci, src_tok(it.srcs[ci]), x, ex, fmt(y)) for (ci, x, y, ex) in d if fmt(y) != ex][:8]
        w = wrong[0] if wrong else None
        ctx.report(f"merge:{cls}",
                   f"{it.form}: target {ty_tok(it.target)} <- merge of {[src_tok(s) for s in it.srcs]} is accepted, but "
                   + (f"when alternative {w[0]} ({w[1]}, value {w[2]}) is taken the target receives {w[4]} instead of {w[3]}; " if w else "")
                   + f"no common join type makes every step a permitted conversion with the observed values ({len(idx)} cases of this class)",
                   {"kind": "merge", "item": it.to_json(), "design": build_design([it]), "wrong[alternative,source,value,expected,observed]": wrong,
                    "observed_rows[alternative taken, values of the alternatives.., out]": r[:24], "other_cases": [items[j].sig() for j in idx[:30]]})
    for i in ill[:3]:
        it = items[i]
        ctx.report(f"ill-typed:{cls_of(it)}", f"{it.form}: merge {it.sig()} is accepted but the emitted VHDL cannot be executed: {rows[i][1]}: {rows[i][2]}",
                   {"kind": "merge", "item": it.to_json(), "design": build_design([it]), "observed": list(rows[i])})
    # what the tie saw but could not turn into a failing input of the property
    reported = {j for idx in viol.values() for j in idx} | set(ill)
    leftover = [i for i in sorted(set(mism) | set(mirror_bad)) if i not in reported]
    if leftover:
        i = min(leftover, key=lambda j: item_size(items[j]))
        it = items[i]
        ctx.report(f"correspondence:merge:{cls_of(it)}:{'accepted' if observed[i] else 'rejected'}",
                   f"{len(leftover)} merges behave differently from the Lean mirror (decision or join type) while every observed value is "
                   f"still a permitted conversion; first {it.sig()}: compiler {'accepts' if observed[i] else 'rejects'}, model "
                   f"{'accepts' if exp[i] else 'rejects'}, model join type {None if join[i] is None else ty_tok(join[i])}",
                   {"kind": "merge-correspondence", "item": it.to_json(), "design": build_design([it]), "expected": exp[i], "observed": observed[i],
                    "theorem": "C05.join_sound / C05.merge_sound speak about tryJoin / mergeOk", "cases": [items[j].sig() for j in leftover[:40]]},
                   no_failing_input=True)
    ctx.extra["merge_cases"] = len(items)
    ctx.extra["merge_values"] = nvals
    ctx.obligation("correspondence: value of every accepted merge, for every alternative taken and all its values = Lean mergeValue (casts through the join type of Lean tryJoin; Null/Full fill the target)",
                   not mirror_bad and not ill and not viol, detail=f"{nvals} values of {len(good)} accepted merges, {len(mirror_bad)} not explained by the mirror's join type, "
                   f"{sum(len(v) for v in viol.values())} violate the property, {len(ill)} ill-typed")


# ---------------------------------------------------------------------------------------------------
# (c) Python level: `_assign` and `__init__` of the primitive types on constant objects
# ---------------------------------------------------------------------------------------------------


def py_level(task):
    """task = [(target type, source, [values])] -> [(assign accepted, [values after], init accepted, [values after])]"""
    import_cohdl()
    from cohdl import Bit, BitVector, Unsigned, Signed, Null, Full
    from cohdl._core._boolean import _Boolean
    from cohdl._core._integer import Integer

    def cls(t):
        return {"bit": Bit, "bool": _Boolean, "int": Integer}.get(t[0]) or {"bv": BitVector, "uns": Unsigned, "sgn": Signed}[t[0]][t[1]]

    def obj(s, v):
        if s[0] == "rt":
            t = s[1]
            if t[0] == "bv":
                return BitVector[t[1]](format(v, f"0{t[1]}b"))
            if t[0] == "bool":
                return _Boolean(bool(v))
            return cls(t)(v)
        if s[0] == "lit":
            return s[1]
        if s[0] == "blit":
            return bool(s[1])
        if s[0] == "str":
            return s[1]
        return Null if s[0] == "null" else Full

    def canon(t, o):
        if t[0] in ("bit", "bool"):
            return int(bool(o))
        if t[0] == "int":
            return int(o)
        if t[0] == "bv":
            b = o._bit_str()
            return int(b, 2) if set(b) <= {"0", "1"} else None
        return o.to_int()

    out = []
    for t, s, vals in task:
        t, s = tuple(t), tuple(tuple(x) if isinstance(x, list) else x for x in s)
        T = cls(t)
        a_ok, a_vals, i_ok, i_vals = True, [], True, []
        for v in vals:
            try:
                tgt = T()
                tgt._assign(obj(s, v))
                a_vals.append(canon(t, tgt))
            except Exception:
                a_ok = False
            try:
                i_vals.append(canon(t, T(obj(s, v))))
            except Exception:
                i_ok = False
        out.append((a_ok, a_vals, i_ok, i_vals))
    return out


def run_python_level(ctx):
    W = range(1, 7)
    types = [("bit",), ("bool",)] + [(k, n) for k in VEC for n in W]
    cases = []
    for t in types + [("int",)]:
        for st in types:
            s = ("rt", st)
            cases.append((t, s, src_values(s)))
        for s in literal_sources(t):
            if t[0] == "int" and s[0] in ("full", "str"):
                continue
            cases.append((t, s, [0]))
    res = fork_map(py_level, chunks(cases, 80), fresh=False)
    flat = []
    for r in res:
        if r[0] != "ok":
            raise AssertionError("python level task failed: " + r[1])
        flat += r[1]
    req = []
    for (t, s, vals) in cases:
        req += [f"front {ty_tok(t)} {src_tok(s)}", f"initf {ty_tok(t)} {src_tok(s)}", f"spec {ty_tok(t)} {src_tok(s)}"]
        for v in vals:
            req.append(f"conv {ty_tok(t)} {ty_tok(s[1])} {v}" if s[0] == "rt" else f"convlit {ty_tok(t)} {src_tok(s)}")
    ans = lean_io.query("C05", req)
    p = 0
    mism, viol = [], {}
    for (t, s, vals), (a_ok, a_vals, i_ok, i_vals) in zip(cases, flat):
        front, initf, spec = ans[p] == "1", ans[p + 1] == "1", ans[p + 2]
        exp = ans[p + 3: p + 3 + len(vals)]
        p += 3 + len(vals)
        it = Item("py", t, [s])
        ctx.case(key=("py",) + it.key(), nontrivial=not (s[0] == "rt" and s[1] == t), kind="python-level")
        if a_ok != front or i_ok != initf:
            mism.append((it.sig(), a_ok, front, i_ok, initf))
        for which, ok, got in (("_assign", a_ok, a_vals), ("__init__", i_ok, i_vals)):
            if not ok:
                continue
            if spec == "reject":
                viol.setdefault(f"py{which}:accepts-must-reject:{cls_of(it)}", []).append((it, None))
            else:
                wrong = [(v, e, g) for v, e, g in zip(vals, exp, got) if str(g) != e and not (g is None and e == "-")]
                # string literals into bool are Python truthiness in __init__ (grey) - compared only where the spec defines them
                if wrong and spec == "allowed":
                    viol.setdefault(f"py{which}:value:{cls_of(it)}", []).append((it, wrong[0]))
    ctx.obligation("correspondence: Python-level `_assign` / `T(value)` on constant objects accept exactly what Lean assignFront / initFront accept",
                   not mism, detail=f"{len(cases)} (target, source) pairs, all source values; {len(mism)} differ" + (f"; first {mism[:5]}" if mism else ""))
    if mism and not viol:
        ctx.report("correspondence:python-level:" + mism[0][0],
                   f"{len(mism)} Python-level `_assign` / `T(value)` decisions differ from Lean assignFront / initFront without violating the "
                   f"property; first {mism[0][0]}: _assign accepted={mism[0][1]} (model {mism[0][2]}), T(value) accepted={mism[0][3]} (model {mism[0][4]})",
                   {"kind": "py-correspondence", "item": {"form": "py", "target": [], "srcs": []}, "cases": [list(m) for m in mism[:40]],
                    "theorem": "C05.accepted_never_must_reject speaks about assignFront / initFront"}, no_failing_input=True)
    for sig, lst in sorted(viol.items()):
        it, w = min(lst, key=lambda x: item_size(x[0]))
        ctx.report(sig, f"Python level: {ty_tok(it.target)} <- {src_tok(it.srcs[0])}: " + ("accepted although the property demands an error" if w is None else f"value {w[0]} becomes {w[2]} (expected {w[1]})"),
                   {"kind": "py", "item": it.to_json(), "which": sig.split(":")[0], "wrong": w, "other_cases": [x[0].sig() for x in lst[:30]]})


# ---------------------------------------------------------------------------------------------------
# replay
# ---------------------------------------------------------------------------------------------------


def replay(ctx, data):
    r = data["replay"]
    it = Item.from_json(r["item"])
    kind = r["kind"]
    if kind == "py":
        vals = src_values(it.srcs[0])
        a_ok, a_vals, i_ok, i_vals = fork_map(py_level, [[(it.target, it.srcs[0], vals)]], fresh=False)[0][1][0]
        spec = lean_io.query("C05", [f"spec {ty_tok(it.target)} {src_tok(it.srcs[0])}"])[0]
        print(f"{it.sig()}: spec={spec} _assign accepted={a_ok} values={a_vals[:8]} __init__ accepted={i_ok} values={i_vals[:8]}")
        ok = a_ok if r["which"] == "py_assign" else i_ok
        if r["wrong"] is None:
            return 1 if ok and spec == "reject" else 0
        s = it.srcs[0]
        exp = lean_io.query("C05", [f"conv {ty_tok(it.target)} {ty_tok(s[1])} {v}" if s[0] == "rt" else f"convlit {ty_tok(it.target)} {src_tok(s)}" for v in vals])
        got = a_vals if r["which"] == "py_assign" else i_vals
        return 1 if ok and any(str(g) != e for g, e in zip(got, exp)) else 0
    src = build_design([it])
    c = compile_many([(src, "E")])[0]
    print(src)
    print("compiler:", "accepted" if c["ok"] else f"rejected ({c['errtype']})")
    if kind == "correspondence":
        exp = lean_io.query("C05", [f"ok {lean_form(it.form)} {ty_tok(it.target)} {src_tok(it.srcs[0])}"])[0] == "1"
        print("model:", "accepted" if exp else "rejected")
        return 0 if exp == c["ok"] else 1
    if kind == "merge-correspondence":
        exp, join = merge_model([it])
        print("model:", "accepted" if exp[0] else "rejected", "join", join[0])
        return 0 if exp[0] == c["ok"] else 1
    if kind == "py-correspondence":
        return 1
    if not c["ok"]:
        return 0
    if kind == "accept":
        print("the property demands a compile-time error for", it.sig())
        return 1
    rows = simulate((c["vhdl"], [it.to_json()]))[0]
    if isinstance(rows, tuple):
        print("emitted VHDL cannot be executed:", rows)
        return 1
    if kind == "merge":
        for R in merge_candidates(it):
            if explains(it, rows, R):
                print("every alternative arrives by permitted conversions; join type", R)
                return 0
        for (ci, x, y, ex) in chain_expected([(it, rows)], lambda _: None)[id(it)]:
            if fmt(y) != ex:
                print(f"alternative {ci} ({src_tok(it.srcs[ci])}) taken with value {x}: target receives {fmt(y)}, expected {ex}")
        return 1
    s = it.srcs[0]
    bad = 0
    for (sel, x, y) in rows:
        exp = lean_io.query("C05", [f"conv {ty_tok(it.target)} {ty_tok(s[1])} {x}" if s[0] == "rt" else f"convlit {ty_tok(it.target)} {src_tok(s)}"])[0]
        got = "-" if y is None else str(y)
        if got != exp:
            bad += 1
            if bad <= 8:
                print(f"source value {x}: expected {exp}, observed {got}")
    return 1 if bad else 0
