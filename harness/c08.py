"""C08 - intermediate values are written before read within every activation.

Per generated process body (control-flow shape x placement of definition and use of intermediates):
  * source-level oracle (definite assignment on the generated AST, written independently of the compiler):
    a body in which some path reaches a use without a definition earlier in the same activation / state
    MUST be rejected by the compiler - an accepted one is a VIOLATION (replay = source + the branch path);
  * certificate: for every ACCEPTED design the real IR (std.VhdlCompiler.to_ir) of every process is exported
    as a read/write/alternative skeleton and the Lean-verified analysis `safe` (C08.safe_sound) is evaluated
    on it - `ok` proves that no execution path of any activation reads a temporary before writing it;
    a failing certificate comes with a concrete faulting path found by the Lean driver;
  * mirror: the compiler's accept/reject decision is compared with the Lean mirror `detect` of
    `detect_uninitialized_temporaries` on the exported skeleton of accepted designs (diagnostic).
Over-rejection (a safe body that the compiler rejects) is not a violation of this property; it is counted.
"""

from .common import Ctx, fork_map, load_design_module, import_cohdl, InfraError
from . import lean_io

HEADER = '''import cohdl
from cohdl import Bit, BitVector, Port, Unsigned, Signed, Signal, Null, true, false
from cohdl import std

def same(p, q):
    return bool(p == q)

class W(cohdl.Entity):
    clk = Port.input(Bit)
    a = Port.input(Unsigned[4]); b = Port.input(Unsigned[4])
    sel = Port.input(BitVector[2])
    c = Port.input(BitVector[4])
    i = Port.input(Unsigned[2])
    ov = Port.output(BitVector[4], default=Null)
    w0 = Port.output(Unsigned[4], default=Null); w1 = Port.output(Unsigned[4], default=Null)
    w2 = Port.output(Unsigned[4], default=Null); w3 = Port.output(Unsigned[4], default=Null)
    s0 = Port.output(Unsigned[3], default=Null); s1 = Port.output(Unsigned[3], default=Null)
    s2 = Port.output(Unsigned[3], default=Null); s3 = Port.output(Unsigned[3], default=Null)
    o0 = Port.output(Bit, default=Null); o1 = Port.output(Bit, default=Null)
    o2 = Port.output(Bit, default=Null); o3 = Port.output(Bit, default=Null)
    g0 = Port.output(Signed[4], default=Null); g1 = Port.output(Signed[4], default=Null)
    g2 = Port.output(Signed[4], default=Null); g3 = Port.output(Signed[4], default=Null)
    def architecture(self):
        @std.sequential(std.Clock(self.clk))
        {ASYNC}def proc():
'''

# ---- generator: statements
#  ('def', k)  ('use', k, j)  ('if', [(cond, body)...], else_body|None)   (if / elif / else)
#  ('match', [body...], default|None)   ('for', [(cond, body)...], else_body|None)   ('await', cond)


class Gen:
    def __init__(self, rng, depth, allow_await):
        self.rng, self.depth, self.allow_await = rng, depth, allow_await
        self.ntemps = 0
        self.kind = {}
        self.budget = rng.choice([5, 8, 12])
        self.has_await = False

    def cond(self):
        # 9 = the condition bit is selected by a RUN-TIME index (`self.c[self.i]`): the reference keeps a
        # compiler-generated index temporary, which an `await` captures in the state before the polling state
        return 9 if self.rng.random() < 0.12 else self.rng.randrange(4)

    def helper(self, d):
        """shape of a helper function: ('ret',) | ('none',) | ('if', cond, shape, shape, tail-shape|None)"""
        rng = self.rng
        if d == 0 or rng.random() < 0.3:
            return ("ret",) if rng.random() < 0.8 else ("none",)
        t = self.helper(d - 1)
        e = self.helper(d - 1) if rng.random() < 0.6 else None
        tail = None
        if not (returns(t) and e is not None and returns(e)):
            tail = self.helper(d - 1)
        return ("if", self.cond(), t, e, tail)

    def block(self, d, top=False):
        rng = self.rng
        out = []
        for _ in range(rng.choice([1, 2, 2, 3]) + (1 if top else 0)):
            if self.budget <= 0:
                break
            self.budget -= 1
            r = rng.random()
            if r < 0.28 or (self.ntemps == 0 and r < 0.5):
                # cohdl forbids rebinding a name, so every definition introduces a fresh one; a value
                # "computed in several branches" arises from helper functions returning in branches
                k = self.ntemps
                self.ntemps += 1
                r2 = rng.random()
                if r2 < 0.35:
                    out.append(("defcall", k, self.helper(rng.choice([1, 2, 2, 3]))))
                    self.kind[k] = "val"
                elif r2 < 0.5:
                    out.append(("defsig", k))
                    self.kind[k] = "val"
                elif r2 < 0.65:
                    # a reference to a run-time indexed element kept in a name: the index is captured in a temporary
                    out.append(("defref", k))
                    self.kind[k] = "ref"
                else:
                    out.append(("def", k))
                    self.kind[k] = "val"
            elif r < 0.55 and self.ntemps > 0:
                k = rng.randrange(self.ntemps)
                forms = REF_FORMS if self.kind.get(k) == "ref" else USE_FORMS
                out.append(("use", k, rng.randrange(4), rng.choice(forms)))
            elif r < 0.72 and d > 0:
                n = rng.choice([1, 1, 2, 3])
                arms = [(self.cond(), self.block(d - 1)) for _ in range(n)]
                els = self.block(d - 1) if rng.random() < 0.55 else None
                out.append(("if", arms, els))
            elif r < 0.84 and d > 0:
                n = rng.choice([1, 2, 3])
                arms = [self.block(d - 1) for _ in range(n)]
                dflt = self.block(d - 1) if rng.random() < 0.5 else None
                out.append(("match", arms, dflt))
            elif r < 0.92 and d > 0:
                n = rng.choice([2, 3])
                arms = [(i, self.block(d - 1)) for i in range(n)]
                els = self.block(d - 1) if rng.random() < 0.4 else None
                out.append(("for", arms, els))
            elif r < 0.94 and rng.random() < 0.5:
                out.append(("sel", rng.randrange(4), rng.randrange(len(SEL_FORMS))))
            elif r < 0.97 and self.allow_await:
                out.append(("await", self.cond()))
                self.has_await = True
            else:
                if self.ntemps:
                    k = rng.randrange(self.ntemps)
                    out.append(("use", k, rng.randrange(4), rng.choice(REF_FORMS if self.kind.get(k) == "ref" else USE_FORMS)))
                else:
                    out.append(("def", 0))
                    self.kind[0] = "val"
                    self.ntemps = 1
        return out


def systematic():
    """construct x placement enumeration: definition in a subset of the arms, use after the construct"""
    progs = []
    for kind in ("if", "match", "for"):
        for n in (1, 2, 3):
            for has_default in (False, True):
                arms_total = n + (1 if has_default else 0)
                for mask in range(1 << arms_total):
                    bodies = [[("def", 0)] if mask >> i & 1 else [] for i in range(arms_total)]
                    arms, dflt = bodies[:n], (bodies[n] if has_default else None)
                    if kind == "if":
                        st = ("if", [(i % 4, arms[i]) for i in range(n)], dflt)
                    elif kind == "match":
                        st = ("match", arms, dflt)
                    else:
                        st = ("for", [(i, arms[i]) for i in range(n)], dflt)
                    progs.append({"body": [st, ("use", 0, 0)], "async": False})
                    if mask in (1, (1 << arms_total) - 1, 2):
                        for fi, form in enumerate(USE_FORMS[:5]):
                            progs.append({"body": [st, ("use", 0, fi, form)], "async": False})
                    # the same nested one level deep, and with a definition before the construct
                    progs.append({"body": [("if", [(3, [st, ("use", 0, 1)])], None)], "async": False})
                    progs.append({"body": [("def", 0), st, ("use", 0, 2)], "async": False})
    # helper functions returning in branches: every shape up to depth 2
    def shapes(d):
        yield ("ret",)
        yield ("none",)
        if d > 0:
            sub = list(shapes(d - 1))
            for t in sub:
                for e in [None] + sub:
                    for tail in [None] + sub[:2]:
                        yield ("if", 1, t, e, tail)
    for sh in shapes(2):
        progs.append({"body": [("defcall", 0, sh), ("use", 0, 0)], "async": False})
    # kept references with a run-time index: defined in a branch / another state, then written through or read
    for form in REF_FORMS:
        progs.append({"body": [("defref", 0), ("use", 0, 0, form)], "async": False})
        progs.append({"body": [("if", [(0, [("defref", 0)])], None), ("use", 0, 1, form)], "async": False})
        progs.append({"body": [("if", [(0, [("defref", 0)])], [("use", 0, 1, form)])], "async": False})
        progs.append({"body": [("match", [[("defref", 0)], []], None), ("use", 0, 2, form)], "async": False})
        progs.append({"body": [("defref", 0), ("await", 1), ("use", 0, 3, form)], "async": True})
        progs.append({"body": [("defref", 0), ("if", [(1, [("await", 2)])], None), ("use", 0, 3, form)], "async": True})
    # a definition FOLLOWED by another branching construct inside one arm, used after the enclosing construct
    # (the analysis must extend, not replace, the set of definitely written intermediates when it leaves the inner one)
    inners = [("if", [(1, [])], None), ("if", [(1, [("use", 0, 1)])], []), ("match", [[], []], None),
              ("match", [[("use", 0, 1)], []], []), ("for", [(0, []), (1, [])], None), ("for", [(0, []), (1, [])], [])]
    for inner in inners:
        arm = [("def", 0), inner]
        for outer in (("if", [(0, arm)], None), ("if", [(0, arm)], []), ("if", [(0, []), (2, arm)], []),
                      ("match", [arm, []], None), ("match", [[], arm], []), ("for", [(0, arm), (1, [])], None)):
            progs.append({"body": [outer, ("use", 0, 0)], "async": False})
        # safe counterparts: every arm defines (then the inner construct), or the definition precedes everything
        progs.append({"body": [("if", [(0, arm)], arm), ("use", 0, 0)], "async": False})
        progs.append({"body": [("match", [arm, arm], arm), ("use", 0, 0)], "async": False})
        progs.append({"body": [("def", 0), ("if", [(0, [inner])], None), ("use", 0, 0)], "async": False})
    # value selections over compiler-generated intermediates: alone, inside branches, after an await
    for f in range(len(SEL_FORMS)):
        progs.append({"body": [("sel", 0, f)], "async": False})
        progs.append({"body": [("if", [(2, [("sel", 1, f)])], [("sel", 2, f)])], "async": False})
        progs.append({"body": [("match", [[("sel", 1, f)], []], [("sel", 3, f)])], "async": False})
        progs.append({"body": [("await", 1), ("sel", 0, f), ("await", 2), ("sel", 1, f)], "async": True})
    # conditions selected by a run-time index: polled in a later state (await) / evaluated in the same state (if)
    progs.append({"body": [("await", 9), ("def", 0), ("use", 0, 0)], "async": True})
    progs.append({"body": [("def", 0), ("use", 0, 0), ("await", 9), ("def", 0), ("use", 0, 1)], "async": True})
    progs.append({"body": [("if", [(1, [("await", 9)])], None), ("def", 0), ("use", 0, 0)], "async": True})
    progs.append({"body": [("await", 1), ("await", 9), ("def", 0), ("use", 0, 2)], "async": True})
    progs.append({"body": [("if", [(9, [("def", 0), ("use", 0, 0)])], None)], "async": False})
    progs.append({"body": [("if", [(0, [("def", 0), ("use", 0, 0)]), (9, [("def", 0), ("use", 0, 1)])], [])], "async": False})
    progs.append({"body": [("await", 0), ("if", [(9, [("def", 0), ("use", 0, 0)])], None)], "async": True})
    # a locally constructed Signal (its alias temporary) defined in one branch / all branches, used afterwards or in another branch
    for form in USE_FORMS[:5]:
        progs.append({"body": [("if", [(0, [("defsig", 0)])], None), ("use", 0, 1, form)], "async": False})
        progs.append({"body": [("if", [(0, [("def", 0)])], [("use", 0, 2, form)])], "async": False})
        progs.append({"body": [("if", [(0, [("def", 0), ("use", 0, 2, form)])], None)], "async": False})
        progs.append({"body": [("match", [[("def", 0)], []], [("use", 0, 3, form)])], "async": False})
    # states of a coroutine
    for pre in (True, False):
        for post in (True, False):
            body = ([("def", 0)] if pre else []) + [("await", 0)] + ([("def", 0)] if post else []) + [("use", 0, 0)]
            progs.append({"body": body, "async": True})
    progs.append({"body": [("def", 0), ("if", [(1, [("await", 2)])], None), ("use", 0, 0)], "async": True})
    progs.append({"body": [("def", 0), ("if", [(1, [("await", 2), ("def", 0)])], None), ("use", 0, 0)], "async": True})
    return progs


def returns(sh):
    """does every path through the helper shape end in `return <value>`?"""
    if sh is None:
        return False
    if sh[0] == "ret":
        return True
    if sh[0] == "none":
        return False
    _, _, t, e, tail = sh
    if returns(t) and e is not None and returns(e):
        return True
    return returns(tail)


def render_helper(sh, ind, n=[0]):
    pad = "    " * ind
    if sh is None:
        return []
    if sh[0] == "ret":
        n[0] += 1
        op = ["|", "&", "^"][n[0] % 3]
        return [f"{pad}return e.a {op} e.b"]
    if sh[0] == "none":
        return [f"{pad}pass"]
    _, c, t, e, tail = sh
    out = [f"{pad}if e.c[{c}]:"] + render_helper(t, ind + 1)
    if e is not None:
        out += [f"{pad}else:"] + render_helper(e, ind + 1)
    out += render_helper(tail, ind)
    return out


# ---- source-level oracle: definite assignment


_SID = [0]
_EVER_SIG = set()


def _fresh_state():
    _SID[0] += 1
    return _SID[0]


def analyse(stmts, D=None):
    """Path-sensitive definite assignment.  Returns (ok, paths); ok = on every path every use is preceded, in the
    same activation / state, by a definition of that intermediate.
    A path is (state id, D, M, E): D = intermediates defined on this path in the current state; M = locally
    constructed Signals whose construction belongs to the current state's code (reads of those go through the
    compiler's alias temporary, which must be defined on the path); E = Signals constructed on this path in an
    earlier state (real storage: reading them is an ordinary signal read)."""
    if D is None or isinstance(D, frozenset):
        paths = {(0, frozenset(), frozenset(), frozenset())}
        _EVER_SIG.clear()
    else:
        paths = D
    ok = True
    for s in stmts:
        k = s[0]
        if k in ("def", "defref"):
            paths = {(sid, d | {s[1]}, m, e) for sid, d, m, e in paths}
        elif k == "defsig":
            _EVER_SIG.add(s[1])
            paths = {(sid, d | {s[1]}, m | {s[1]}, e) for sid, d, m, e in paths}
        elif k == "defcall":
            if returns(s[2]):
                paths = {(sid, d | {s[1]}, m, e) for sid, d, m, e in paths}
        elif k == "use":
            for sid, d, m, e in paths:
                if s[1] in d:
                    continue
                if (s[1] in e or s[1] in _EVER_SIG) and s[1] not in m:
                    # a Signal constructed in an earlier state, or (the tracer binds names in trace order) in a
                    # branch of another state: real storage, an ordinary signal read - not an intermediate
                    continue
                ok = False
        elif k == "await":
            paths = {(_fresh_state(), frozenset(), frozenset(), e | m) for sid, d, m, e in paths}
        elif k in ("if", "for", "match"):
            arms = [b for _, b in s[1]] if k != "match" else list(s[1])
            out = set()
            for body in arms:
                o, ps = analyse(body, paths)
                ok &= o
                out |= ps
            if s[2] is not None:
                o, ps = analyse(s[2], paths)
                ok &= o
                out |= ps
            else:
                out |= paths
            # constructions in a sibling branch of the same state are earlier in that state's code
            by_state = {}
            for sid, d, m, e in out:
                by_state.setdefault(sid, set()).update(m)
            paths = {(sid, d, frozenset(by_state[sid]), e) for sid, d, m, e in out}
    return ok, paths


# ---- rendering

MATCH_PATS = ['"00"', '"01"', '"10"']
# an intermediate is used whole or through a derived reference (slice, bit, msb, typed view)
# a kept reference to an element selected by a run-time index: written through or read
REF_FORMS = ["t{k} <<= self.a[0]", "self.o{j} <<= t{k}"]
# self-contained statements whose VALUE is selected among compiler-generated intermediates (if-expression, select_with,
# std.select over casts / arithmetic / helper results / a locally constructed Signal): every intermediate the emitted
# selection reads must have been written in this activation, also after the compiler's clean-up passes
SEL_FORMS = ["self.o{j} <<= bool(self.a == self.b) if self.c[0] else self.c[1]",
             "self.o{j} <<= self.c[1] if self.c[0] else bool(self.a < self.b)",
             "self.o{j} <<= same(self.a, self.b) if self.c[{j}] else self.c[1]",
             'self.o{j} <<= cohdl.select_with(self.sel, {{"00": bool(self.a == self.b), "01": self.c[1]}}, default=self.c[2])',
             'self.o{j} <<= std.select(self.sel, {{"10": same(self.a, self.b), "01": bool(self.c[0])}}, default=self.c[3])',
             "self.w{j} <<= (self.a + 1) if self.c[0] else (self.b - 1)",
             "self.w{j} <<= Signal[Unsigned[4]](self.a ^ self.b) if self.c[1] else self.b",
             "self.o{j} <<= bool(bool(self.a == self.b)) if bool(self.c[0]) else bool(self.c[1])"]
USE_FORMS = ["self.w{j} <<= t{k}", "self.s{j} <<= t{k}[2:0]", "self.o{j} <<= t{k}[1]", "self.o{j} <<= t{k}.msb()",
             "self.g{j} <<= t{k}.signed", "self.w{j} <<= t{k}", "self.s{j} <<= t{k}.bitvector[3:1].unsigned"]


def render(stmts, ind):
    pad = "    " * ind
    out = []
    for s in stmts:
        k = s[0]
        if k == "def":
            out.append(f"{pad}t{s[1]} = self.a | self.b")
        elif k == "defcall":
            out.append(f"{pad}t{s[1]} = helper{s[1]}(self)")
        elif k == "use":
            form = USE_FORMS[(s[1] * 7 + s[2] * 3 + len(stmts)) % len(USE_FORMS)] if len(s) < 4 else s[3]
            out.append(pad + form.format(j=s[2] % 4, k=s[1]))
        elif k == "sel":
            out.append(pad + SEL_FORMS[s[2] % len(SEL_FORMS)].format(j=s[1] % 4))
        elif k == "defsig":
            out.append(f"{pad}t{s[1]} = Signal[Unsigned[4]](self.a ^ self.b)")
        elif k == "defref":
            out.append(f"{pad}t{s[1]} = self.ov[self.i]")
        elif k == "await":
            out.append(f"{pad}await self.c[{'self.i' if s[1] == 9 else s[1]}]")
        elif k == "if":
            for i, (c, body) in enumerate(s[1]):
                out.append(f"{pad}{'if' if i == 0 else 'elif'} self.c[{'self.i' if c == 9 else c}]:")
                out += render(body, ind + 1) or [f"{pad}    pass"]
            if s[2] is not None:
                out.append(f"{pad}else:")
                out += render(s[2], ind + 1) or [f"{pad}    pass"]
        elif k == "match":
            out.append(f"{pad}match self.sel:")
            for i, body in enumerate(s[1]):
                out.append(f"{pad}    case {MATCH_PATS[i]}:")
                out += render(body, ind + 2) or [f"{pad}        pass"]
            if s[2] is not None:
                out.append(f"{pad}    case _:")
                out += render(s[2], ind + 2) or [f"{pad}        pass"]
        elif k == "for":
            out.append(f"{pad}for i in range({len(s[1])}):")
            out.append(f"{pad}    if self.c[i]:")
            # the loop is unrolled by the tracer; the body must be the same text for every i, so the arms of a
            # for-chain are selected by a constant test on i
            for i, (_, body) in enumerate(s[1]):
                out.append(f"{pad}        {'if' if i == 0 else 'elif'} i == {i}:")
                out += render(body, ind + 3) or [f"{pad}            pass"]
            out.append(f"{pad}        break")
            if s[2] is not None:
                out.append(f"{pad}else:")
                out += render(s[2], ind + 1) or [f"{pad}    pass"]
    return out


def helpers_of(stmts):
    for s in stmts:
        if s[0] == "defcall":
            yield s
        elif s[0] in ("if", "for"):
            for _, b in s[1]:
                yield from helpers_of(b)
            if s[2]:
                yield from helpers_of(s[2])
        elif s[0] == "match":
            for b in s[1]:
                yield from helpers_of(b)
            if s[2]:
                yield from helpers_of(s[2])


def render_source(prog):
    body = render(prog["body"], 3) or ["            pass"]
    hs = []
    for h in helpers_of(prog["body"]):
        hs += [f"def helper{h[1]}(e):"] + render_helper(h[2], 1) + [""]
    head = HEADER.replace("{ASYNC}", "async " if prog["async"] else "")
    head = head.replace("class W(cohdl.Entity):", "\n".join(hs) + "\nclass W(cohdl.Entity):")
    return head + "\n".join(body) + "\n"


# ---- real compiler + IR export


def export_tcode(entity_cls):
    from cohdl import std
    from cohdl._core._ir import _repr as ir
    from cohdl._core._type_qualifier import Temporary
    from cohdl._core._ir._repr import AccessFlags

    tmpl = std.VhdlCompiler.to_ir(entity_cls)
    ids = {}

    def tid(obj):
        return ids.setdefault(id(obj._root), len(ids))

    def rw_of(stmt):
        reads, writes = [], []

        def cb(obj, access):
            if isinstance(obj, Temporary):
                if access is AccessFlags.READ:
                    reads.append(tid(obj))
                elif access is AccessFlags.WRITE:
                    writes.append(tid(obj))
                else:
                    reads.append(tid(obj))
                    writes.append(tid(obj))
            return obj

        ir._visit_referenced_objects(stmt, cb)
        return reads, writes

    def obj_reads(obj):
        reads = []

        def cb(o, access):
            if isinstance(o, Temporary):
                reads.append(tid(o))
            return o

        class _S:  # minimal adaptor so that ref-spec offsets are visited like the compiler does
            def visit_objects(self, op):
                op(obj, AccessFlags.READ)

        ir._visit_referenced_objects(_S(), cb)
        return reads

    def wrap(reads, writes, k):
        for w in reversed(writes):
            k = f"(w {w} {k})"
        for r in reversed(reads):
            k = f"(r {r} {k})"
        return k

    def conv(stmts, k):
        if not stmts:
            return k
        s, rest = stmts[0], stmts[1:]
        if isinstance(s, ir.CodeBlock):
            return conv(list(s._content) + rest, k)
        if isinstance(s, ir.If):
            tail = conv(rest, k)
            inner = f"(alt {conv([s._body], 'nil')} {conv([s._orelse], 'nil')} {tail})"
            return wrap(obj_reads(s._test) if not type(s._test).__name__ == "Event" else [], [], inner)
        if isinstance(s, ir.CaseWhen):
            tail = conv(rest, k)
            reads = obj_reads(s._value)
            chain = conv([s._default], "nil") if s._default is not None else "nil"
            for cond, blk in reversed(s._branches):
                chain = f"(alt {conv([blk], 'nil')} {chain} nil)"
            # splice the continuation behind the outermost alternative
            if chain == "nil":
                return wrap(reads, [], tail)
            assert chain.endswith(" nil)")
            return wrap(reads, [], chain[: -len("nil)")] + tail + ")")
        r, w = rw_of(s)
        return wrap(r, w, conv(rest, k))

    out = []
    for c in tmpl.contexts():
        if isinstance(c, ir.Sequential):
            out.append(conv([c.code()], "nil"))
    return out


def task(src):
    import_cohdl()
    from cohdl import std

    try:
        mod = load_design_module(src, "c08")
        std.VhdlCompiler.to_string(mod.W)
    except BaseException as e:  # noqa
        return {"ok": False, "errtype": type(e).__name__, "err": str(e)[-200:]}
    mod2 = load_design_module(src, "c08x")
    return {"ok": True, "tcodes": export_tcode(mod2.W)}


def shrink(prog, still_bad):
    """remove statements while the program stays a counterexample"""
    def variants(stmts):
        for i in range(len(stmts)):
            yield stmts[:i] + stmts[i + 1 :]
            s = stmts[i]
            if s[0] in ("if", "for"):
                for j, (c, body) in enumerate(s[1]):
                    for v in variants(body):
                        yield stmts[:i] + [(s[0], s[1][:j] + [(c, v)] + s[1][j + 1 :], s[2])] + stmts[i + 1 :]
                if s[2]:
                    for v in variants(s[2]):
                        yield stmts[:i] + [(s[0], s[1], v)] + stmts[i + 1 :]
            if s[0] == "match":
                for j, body in enumerate(s[1]):
                    for v in variants(body):
                        yield stmts[:i] + [("match", s[1][:j] + [v] + s[1][j + 1 :], s[2])] + stmts[i + 1 :]
                if s[2]:
                    for v in variants(s[2]):
                        yield stmts[:i] + [("match", s[1], v)] + stmts[i + 1 :]

    cur = prog
    progress = True
    while progress:
        progress = False
        for v in variants(cur["body"]):
            cand = {"body": v, "async": cur["async"]}
            if v and still_bad(cand):
                cur = cand
                progress = True
                break
    return cur


def evaluate(prog):
    """(accepted?, source_safe?, certificate string or None)"""
    src = render_source(prog)
    r = fork_map(task, [src])[0]
    if r[0] != "ok":
        raise InfraError(r[1])
    r = r[1]
    safe_src, _ = analyse(prog["body"], frozenset())
    certs = lean_io.query("C08", [f"check {t}" for t in r["tcodes"]]) if r["ok"] else None
    return r["ok"], safe_src, certs


def run(ctx: Ctx):
    rng = ctx.rng
    ctx.rule = ("process bodies generated over def/use of intermediates x if/elif/else, match with/without default, for-break "
                "chains with/without else, nesting <= 3, awaits (states) - plus the systematic construct x placement "
                "enumeration (definition in every subset of the arms, use after / nested / pre-defined); non-trivial = contains a "
                "branching construct and a use; distinct = distinct source bodies")
    progs = systematic()
    n_rand = ctx.scale(350, 4000)
    for _ in range(n_rand):
        g = Gen(rng, rng.choice([1, 2, 3]), rng.random() < 0.3)
        body = g.block(g.depth, top=True)
        progs.append({"body": body, "async": g.has_await})
    srcs = [render_source(p) for p in progs]
    res = fork_map(task, srcs)
    reqs, where = [], []
    for i, r in enumerate(res):
        if r[0] != "ok":
            raise InfraError(f"task crashed: {r[1]} {r[2] if len(r) > 2 else ''}")
        if r[1]["ok"]:
            for t in r[1]["tcodes"]:
                reqs.append(f"check {t}")
                where.append(i)
    answers = lean_io.query("C08", reqs)
    certs = {}
    for i, a in zip(where, answers):
        certs.setdefault(i, []).append(a)

    n_acc = n_rej = n_over = n_unsafe_acc = n_cert_bad = n_mirror_diff = 0
    for i, (p, src, r) in enumerate(zip(progs, srcs, res)):
        r = r[1]
        safe_src, _ = analyse(p["body"], frozenset())
        has_branch = any(s[0] in ("if", "match", "for") for s in p["body"])
        has_use = "<<= t" in src
        ctx.case(key=src, nontrivial=has_branch and has_use,
                 kind=("accepted" if r["ok"] else "rejected") + (":safe" if safe_src else ":unsafe"),
                 sample={"body": src.split("def proc():")[1][:300], "accepted": r["ok"], "source_safe": safe_src})
        if not r["ok"]:
            n_rej += 1
            ctx.dist["reject:" + r["errtype"]] += 1
            if safe_src:
                n_over += 1
            continue
        n_acc += 1
        if not safe_src:
            n_unsafe_acc += 1
            if n_unsafe_acc <= 3:
                small = shrink(p, lambda q: (lambda e: e[0] and not e[1])(evaluate(q)))
                ssrc = render_source(small)
                _, _, c2 = evaluate(small)
                ctx.report("c08:accepted-unsafe:" + " ".join(l.strip() for l in ssrc.split("def proc():")[1].strip().splitlines())[:300],
                           "a body in which an intermediate is used on a path that does not define it (in the same activation/state) is accepted by the compiler",
                           {"source": ssrc, "certificate": c2, "program": small})
        for a in certs.get(i, []):
            d, s, path = a.split(" ")
            if s != "ok":
                n_cert_bad += 1
                if safe_src and n_cert_bad <= 3:
                    ctx.report("c08:certificate:" + " ".join(l.strip() for l in src.split("def proc():")[1].strip().splitlines())[:300],
                               f"emitted process reads a compiler-generated intermediate before writing it on the branch path {path} (1 = first alternative taken)",
                               {"source": src, "path": path, "driver_answer": a})
            if d != "acc":
                n_mirror_diff += 1
    # the upstream reference designs as a corpus: the certificate must hold for every process of each of them
    from .corpus import compile_corpus
    corpus = compile_corpus(export_tcode, need_text=False)
    creqs, cwhere = [], []
    for item in corpus:
        for d in item["designs"]:
            for t in d.get("extra", []) or []:
                creqs.append(f"check {t}")
                cwhere.append((item["path"].split("reference_builds/")[-1], d["entity"]))
    n_corpus_bad = 0
    for (path, ent), a in zip(cwhere, lean_io.query("C08", creqs)):
        dd, ss, pp = a.split(" ")
        ctx.case(key=("corpus", path, ent, len(ctx.distinct)), nontrivial=True, kind="corpus-process")
        if ss != "ok":
            n_corpus_bad += 1
            ctx.report(f"c08:corpus-certificate:{path}:{ent}",
                       f"a process of the upstream design {path}::{ent} reads a compiler-generated intermediate before writing it on the branch path {pp}",
                       {"design": path, "entity": ent, "path": pp, "driver_answer": a})
    ctx.obligation("certificates: safe(real IR skeleton) = ok for every process of every compilable upstream reference design",
                   n_corpus_bad == 0 and len(creqs) > 50, kind="certificate", detail=f"{len(creqs)} processes of {sum(len(i['designs']) for i in corpus)} designs, {n_corpus_bad} failed")
    ctx.obligation("oracle: every generated body with a use not dominated by a definition is rejected by the compiler",
                   n_unsafe_acc == 0, detail=f"{n_acc} accepted, {n_rej} rejected, {n_unsafe_acc} unsafe accepted")
    ctx.obligation("certificates: safe(real IR skeleton) = ok for every process of every accepted design (C08.safe_sound)",
                   n_cert_bad == 0, kind="certificate", detail=f"{len(reqs)} processes, {n_cert_bad} failed")
    ctx.obligation("mirror: Lean `detect` accepts the exported skeleton of every design the compiler accepts",
                   n_mirror_diff == 0, detail=f"{n_mirror_diff} differences")
    if n_mirror_diff and not ctx.violations:
        ctx.report("c08:mirror", "the Lean mirror of detect_uninitialized_temporaries rejects a skeleton the compiler accepts (model out of date?)",
                   {"theorem": "correspondence detect-mirror vs compiler", "count": n_mirror_diff}, no_failing_input=True)
    ctx.extra["over_rejected_safe_bodies"] = n_over
    ctx.notes.append(f"{n_over} source-safe bodies are rejected by the compiler (conservative over-rejection, not a violation of C08)")
    if n_acc < len(progs) // 10:
        raise InfraError(f"generator validity too low: {n_acc}/{len(progs)} accepted")


def replay(ctx, data):
    r = data["replay"]
    res = fork_map(task, [r["source"]])[0][1]
    print("accepted:", res["ok"])
    if res["ok"]:
        print(lean_io.query("C08", [f"check {t}" for t in res["tcodes"]]))
        return 1
    return 0
