"""Tokenizer and recursive-descent parser for the VHDL subset printed by cohdl's back end
(cohdl/_compiler/backend/vhdl/_vhdl_repr.py).  Anything outside the subset raises VhdlSyntaxError -
it is never skipped.  The AST is made of plain tuples / dataclass-like dicts so that it can be walked
by the simulator (vhdl_sim.py), the static checker (vhdl_check.py) and printed as s-expressions.

Expression AST (tuples):
  ('name', id)                      ('int', n)             ('char', c)         ('str', s)
  ('bool', b)                       ('index', base, expr)  ('slice', base, l, dir, r)
  ('call', fname, [args])           ('qual', typemark, expr)
  ('bin', op, a, b)                 ('un', op, a)          ('agg', [(choice|None='others', expr)])
  ('paren', e)  is dropped (parentheses only group)
"""

import re

RESERVED = {
    "abs", "access", "after", "alias", "all", "and", "architecture", "array", "assert", "attribute",
    "begin", "block", "body", "buffer", "bus", "case", "component", "configuration", "constant",
    "disconnect", "downto", "else", "elsif", "end", "entity", "exit", "file", "for", "function",
    "generate", "generic", "group", "guarded", "if", "impure", "in", "inertial", "inout", "is",
    "label", "library", "linkage", "literal", "loop", "map", "mod", "nand", "new", "next", "nor",
    "not", "null", "of", "on", "open", "or", "others", "out", "package", "port", "postponed",
    "procedure", "process", "pure", "range", "record", "register", "reject", "rem", "report",
    "return", "rol", "ror", "select", "severity", "signal", "shared", "sla", "sll", "sra", "srl",
    "subtype", "then", "to", "transport", "type", "unaffected", "units", "until", "use", "variable",
    "wait", "when", "while", "with", "xnor", "xor",
    # VHDL-2008 additions
    "assume", "assume_guarantee", "context", "cover", "default", "fairness", "force", "parameter",
    "property", "protected", "release", "restrict", "restrict_guarantee", "sequence", "strong",
    "vmode", "vprop", "vunit",
}

BASIC_ID = re.compile(r"[A-Za-z](_?[A-Za-z0-9])*$")


class VhdlSyntaxError(Exception):
    pass


class Tok:
    __slots__ = ("kind", "val", "line")

    def __init__(self, kind, val, line):
        self.kind, self.val, self.line = kind, val, line

    def __repr__(self):
        return f"{self.kind}:{self.val!r}@{self.line}"


_SYM2 = ("<=", ":=", "=>", "/=", ">=", "**", "<>")
_SYM1 = "()+-*/&=<>,;:.'|"


def tokenize(text):
    toks = []
    i, n, line = 0, len(text), 1
    while i < n:
        c = text[i]
        if c == "\n":
            line += 1
            i += 1
            continue
        if c in " \t\r":
            i += 1
            continue
        if c == "-" and text.startswith("--", i):
            j = text.find("\n", i)
            i = n if j < 0 else j
            continue
        if c in "xXbBoO" and i + 1 < n and text[i + 1] == '"' and not (toks and toks[-1].kind == "id" and False):
            # based bit-string literal  x"A5" / b"1010" / o"17"  (VHDL-93): the same value as the binary string
            j = text.find('"', i + 2)
            if j < 0:
                raise VhdlSyntaxError(f"line {line}: unterminated bit-string literal")
            digits = text[i + 2 : j].replace("_", "")
            per = {"x": 4, "b": 1, "o": 3}[c.lower()]
            try:
                bits = "".join(format(int(d, 2 ** per), f"0{per}b") for d in digits)
            except ValueError:
                raise VhdlSyntaxError(f"line {line}: bad digit in bit-string literal {text[i:j + 1]}")
            toks.append(Tok("str", bits, line))
            i = j + 1
            continue
        if c.isalpha() or c == "_":
            # note: an identifier starting with '_' is illegal VHDL; it is tokenised as an
            # identifier anyway and flagged by the static checker (identifier grammar).
            j = i + 1
            while j < n and (text[j].isalnum() or text[j] == "_"):
                j += 1
            toks.append(Tok("id", text[i:j], line))
            i = j
            continue
        if c.isdigit():
            j = i + 1
            while j < n and (text[j].isalnum() or text[j] == "_"):
                j += 1
            word = text[i:j]
            if word.isdigit():
                toks.append(Tok("int", int(word), line))
            else:
                # e.g. an identifier that starts with a digit: illegal, keep as id for the checker
                toks.append(Tok("id", word, line))
            i = j
            continue
        if c == '"':
            j = text.find('"', i + 1)
            if j < 0:
                raise VhdlSyntaxError(f"line {line}: unterminated string")
            toks.append(Tok("str", text[i + 1 : j], line))
            i = j + 1
            continue
        if c == "'":
            # character literal 'x' unless this is a tick after an identifier/closing paren
            prev = toks[-1] if toks else None
            is_char = i + 2 < n and text[i + 2] == "'"
            if is_char and prev is not None and prev.kind == "id" and prev.val.lower() not in RESERVED:
                # id'('... : could be a qualified expression  T'('0')?  never printed; treat as tick
                # only when followed by "(" right after the tick
                if text[i + 1] == "(":
                    is_char = False
            if is_char:
                toks.append(Tok("char", text[i + 1], line))
                i += 3
                continue
            toks.append(Tok("sym", "'", line))
            i += 1
            continue
        two = text[i : i + 2]
        if two in _SYM2:
            toks.append(Tok("sym", two, line))
            i += 2
            continue
        if c in _SYM1:
            toks.append(Tok("sym", c, line))
            i += 1
            continue
        raise VhdlSyntaxError(f"line {line}: unexpected character {c!r}")
    toks.append(Tok("eof", None, line))
    return toks


LOGICAL = {"and", "or", "xor", "nand", "nor", "xnor"}
RELATIONAL = {"=", "/=", "<", "<=", ">", ">="}
SHIFT = {"sll", "srl", "sla", "sra", "rol", "ror"}
ADDING = {"+", "-", "&"}
MULT = {"*", "/", "mod", "rem"}


class Parser:
    def __init__(self, text):
        self.toks = tokenize(text)
        self.p = 0

    # -- token helpers
    def peek(self, k=0):
        return self.toks[min(self.p + k, len(self.toks) - 1)]

    def next(self):
        t = self.toks[self.p]
        self.p += 1
        return t

    def err(self, msg):
        t = self.peek()
        raise VhdlSyntaxError(f"line {t.line}: {msg}, found {t!r}")

    def is_kw(self, word, k=0):
        t = self.peek(k)
        return t.kind == "id" and t.val.lower() == word

    def is_sym(self, s, k=0):
        t = self.peek(k)
        return t.kind == "sym" and t.val == s

    def kw(self, word):
        if not self.is_kw(word):
            self.err(f"expected keyword {word!r}")
        return self.next()

    def sym(self, s):
        if not self.is_sym(s):
            self.err(f"expected {s!r}")
        return self.next()

    def ident(self):
        t = self.peek()
        if t.kind != "id":
            self.err("expected identifier")
        return self.next().val

    def accept_kw(self, word):
        if self.is_kw(word):
            self.next()
            return True
        return False

    def accept_sym(self, s):
        if self.is_sym(s):
            self.next()
            return True
        return False

    # -- design file
    def design_file(self):
        units = []
        while self.peek().kind != "eof":
            if self.is_kw("library"):
                self.next()
                self.ident()
                self.sym(";")
            elif self.is_kw("use"):
                self.next()
                self.ident()
                while self.accept_sym("."):
                    if not self.accept_kw("all"):
                        self.ident()
                self.sym(";")
            elif self.is_kw("entity"):
                units.append(self.entity_decl())
            elif self.is_kw("architecture"):
                units.append(self.architecture())
            else:
                self.err("expected design unit")
        return units

    def entity_decl(self):
        line = self.peek().line
        self.kw("entity")
        name = self.ident()
        self.kw("is")
        ports = []
        if self.is_kw("port"):
            self.next()
            self.sym("(")
            while not self.is_sym(")"):
                pname = self.ident()
                self.sym(":")
                t = self.next()
                if t.kind != "id" or t.val.lower() not in ("in", "out", "inout"):
                    raise VhdlSyntaxError(f"line {t.line}: expected port direction")
                ty = self.subtype_indication()
                default = None
                if self.accept_sym(":="):
                    default = self.expr()
                ports.append({"name": pname, "dir": t.val.lower(), "type": ty, "default": default})
                if not self.accept_sym(";"):
                    break
            self.sym(")")
            self.sym(";")
        self.kw("end")
        self.accept_kw("entity")
        if self.peek().kind == "id":
            endname = self.ident()
        else:
            endname = None
        self.sym(";")
        return {"unit": "entity", "name": name, "ports": ports, "endname": endname, "line": line}

    def subtype_indication(self):
        name = self.ident()
        if self.accept_sym("("):
            l = self.expr()
            if self.accept_kw("downto"):
                d = "downto"
            elif self.accept_kw("to"):
                d = "to"
            else:
                self.err("expected range direction")
            r = self.expr()
            self.sym(")")
            return ("ranged", name, l, d, r)
        return ("plain", name)

    def architecture(self):
        line = self.peek().line
        self.kw("architecture")
        name = self.ident()
        self.kw("of")
        ent = self.ident()
        self.kw("is")
        decls = self.declarations()
        self.kw("begin")
        stmts = []
        while not self.is_kw("end"):
            stmts.append(self.concurrent_stmt())
        self.kw("end")
        self.accept_kw("architecture")
        endname = self.ident() if self.peek().kind == "id" else None
        self.sym(";")
        return {"unit": "architecture", "name": name, "entity": ent, "decls": decls,
                "stmts": stmts, "endname": endname, "line": line}

    def declarations(self):
        decls = []
        while True:
            if self.is_kw("function"):
                # only the fixed helper is ever printed; skip to "end function <name>;"
                self.next()
                fname = self.ident()
                depth = 0
                toks = []
                while True:
                    t = self.next()
                    if t.kind == "eof":
                        self.err("unterminated function")
                    if t.kind == "id" and t.val.lower() == "end" and self.is_kw("function"):
                        self.next()
                        if self.peek().kind == "id":
                            self.next()
                        self.sym(";")
                        break
                    toks.append(str(t.val).lower())
                # token text of "(<params>) return <type> is begin <body>": the simulator recognises the
                # boolean -> std_logic helper by this shape, whatever it is called
                decls.append({"decl": "function", "name": fname, "tokens": toks})
            elif self.is_kw("signal") or self.is_kw("variable") or self.is_kw("constant"):
                kind = self.next().val.lower()
                line = self.peek().line
                names = [self.ident()]
                while self.accept_sym(","):  # identifier list:  variable a, b : T;
                    names.append(self.ident())
                self.sym(":")
                ty = self.subtype_indication()
                default = None
                if self.accept_sym(":="):
                    default = self.expr()
                self.sym(";")
                for name in names:
                    decls.append({"decl": kind, "name": name, "type": ty, "default": default, "line": line})
            elif self.is_kw("type"):
                self.next()
                name = self.ident()
                self.kw("is")
                if self.accept_kw("array"):
                    self.sym("(")
                    # optional index subtype mark:  array(natural range 0 to N)
                    if self.peek().kind == "id" and self.peek().val.lower() in ("natural", "integer", "positive") \
                            and self.is_kw("range", 1):
                        self.next()
                        self.next()
                    l = self.expr()
                    if self.accept_kw("to"):
                        d = "to"
                    elif self.accept_kw("downto"):
                        d = "downto"
                    else:
                        self.err("expected direction")
                    r = self.expr()
                    self.sym(")")
                    self.kw("of")
                    et = self.subtype_indication()
                    self.sym(";")
                    decls.append({"decl": "arraytype", "name": name, "l": l, "dir": d, "r": r, "elem": et})
                else:
                    self.sym("(")
                    lits = [self.ident()]
                    while self.accept_sym(","):
                        lits.append(self.ident())
                    self.sym(")")
                    self.sym(";")
                    decls.append({"decl": "enumtype", "name": name, "lits": lits})
            elif self.is_kw("attribute"):
                # attribute N : T;   |  attribute N of X : signal is V;
                self.next()
                toks = []
                while not self.is_sym(";"):
                    toks.append(self.next())
                self.sym(";")
                decls.append({"decl": "attribute", "text": " ".join(str(t.val) for t in toks)})
            else:
                return decls

    # -- concurrent statements
    def concurrent_stmt(self):
        line = self.peek().line
        if self.is_kw("with"):
            return self.with_select()
        if self.is_kw("assert"):
            return self.assert_stmt()
        # label?
        if self.peek().kind == "id" and self.is_sym(":", 1):
            label = self.ident()
            self.sym(":")
            if self.is_kw("process"):
                return self.process(label)
            if self.is_kw("entity"):
                return self.instance(label)
            self.err("expected process or entity after label")
        if self.is_kw("process"):
            return self.process(None)
        target = self.name()
        self.sym("<=")
        e = self.expr()
        self.sym(";")
        return {"stmt": "cassign", "target": target, "expr": e, "line": line}

    def with_select(self):
        line = self.peek().line
        self.kw("with")
        sel = self.expr()
        self.kw("select")
        target = self.name()
        self.sym("<=")
        branches = []
        default = None
        while True:
            v = self.expr()
            self.kw("when")
            if self.accept_kw("others"):
                default = v
            else:
                choices = [self.expr()]
                while self.accept_sym("|"):
                    choices.append(self.expr())
                branches.append((choices, v))
            if self.accept_sym(","):
                continue
            self.sym(";")
            break
        return {"stmt": "select", "sel": sel, "target": target, "branches": branches,
                "default": default, "line": line}

    def process(self, label):
        line = self.peek().line
        self.kw("process")
        sens = []
        sens_all = False
        if self.accept_sym("("):
            if self.accept_kw("all"):
                sens_all = True
            else:
                if not self.is_sym(")"):
                    sens.append(self.name())
                    while self.accept_sym(","):
                        sens.append(self.name())
            self.sym(")")
        self.accept_kw("is")
        decls = self.declarations()
        self.kw("begin")
        body = self.seq_stmts(("end",))
        self.kw("end")
        self.kw("process")
        if self.peek().kind == "id":
            self.next()
        self.sym(";")
        return {"stmt": "process", "label": label, "sens": sens, "sens_all": sens_all,
                "decls": decls, "body": body, "line": line}

    def instance(self, label):
        line = self.peek().line
        self.kw("entity")
        lib = self.ident()
        self.sym(".")
        ent = self.ident()
        arch = None
        if self.accept_sym("("):
            arch = self.ident()
            self.sym(")")
        generics = []
        if self.is_kw("generic"):
            self.next()
            self.kw("map")
            self.sym("(")
            while not self.is_sym(")"):
                f = self.ident()
                self.sym("=>")
                generics.append((f, self.expr()))
                if not self.accept_sym(","):
                    break
            self.sym(")")
            self.accept_sym(";")  # cohdl prints ");" after the generic map
        ports = []
        if self.is_kw("port"):
            self.next()
            self.kw("map")
            self.sym("(")
            while not self.is_sym(")"):
                f = self.ident()
                if self.is_sym("("):
                    # conversion on the formal side of an output association:  unsigned(y) => actual
                    self.sym("(")
                    inner = self.ident()
                    self.sym(")")
                    f = ("conv", f, inner)
                self.sym("=>")
                ports.append((f, self.expr()))
                if not self.accept_sym(","):
                    break
            self.sym(")")
            self.sym(";")
        else:
            self.accept_sym(";")
        return {"stmt": "instance", "label": label, "lib": lib, "entity": ent, "arch": arch,
                "generics": generics, "ports": ports, "line": line}

    def assert_stmt(self):
        line = self.peek().line
        self.kw("assert")
        e = self.expr()
        msg = None
        if self.accept_kw("report"):
            t = self.next()
            if t.kind != "str":
                raise VhdlSyntaxError(f"line {t.line}: expected report string")
            msg = t.val
        self.sym(";")
        return {"stmt": "assert", "expr": e, "msg": msg, "line": line}

    # -- sequential statements
    def seq_stmts(self, stop):
        out = []
        while not any(self.is_kw(s) for s in stop):
            out.append(self.seq_stmt())
        return out

    def seq_stmt(self):
        line = self.peek().line
        if self.is_kw("if"):
            self.next()
            cond = self.expr()
            self.kw("then")
            body = self.seq_stmts(("else", "elsif", "end"))
            orelse = []
            if self.is_kw("elsif"):
                self.err("elsif is never printed by the back end")
            if self.accept_kw("else"):
                orelse = self.seq_stmts(("end",))
            self.kw("end")
            self.kw("if")
            self.sym(";")
            return {"stmt": "if", "cond": cond, "body": body, "orelse": orelse, "line": line}
        if self.is_kw("case"):
            self.next()
            sel = self.expr()
            self.kw("is")
            branches = []
            others = None
            while self.accept_kw("when"):
                if self.accept_kw("others"):
                    self.sym("=>")
                    others = self.seq_stmts(("when", "end"))
                else:
                    choices = [self.expr()]
                    while self.accept_sym("|"):
                        choices.append(self.expr())
                    self.sym("=>")
                    branches.append((choices, self.seq_stmts(("when", "end"))))
            self.kw("end")
            self.kw("case")
            self.sym(";")
            return {"stmt": "case", "sel": sel, "branches": branches, "others": others, "line": line}
        if self.is_kw("null"):
            self.next()
            self.sym(";")
            return {"stmt": "null", "line": line}
        if self.is_kw("assert"):
            return self.assert_stmt()
        target = self.name()
        if self.accept_sym("<="):
            e = self.expr()
            self.sym(";")
            return {"stmt": "sassign", "target": target, "expr": e, "line": line}
        if self.accept_sym(":="):
            e = self.expr()
            self.sym(";")
            return {"stmt": "vassign", "target": target, "expr": e, "line": line}
        self.err("expected assignment")

    # -- names and expressions
    def name(self):
        """a target / sensitivity name: id, id(expr), id(l downto r), possibly chained"""
        base = ("name", self.ident())
        while self.is_sym("("):
            base = self.suffix(base)
        return base

    def suffix(self, base):
        self.sym("(")
        first = self.expr()
        if self.accept_kw("downto"):
            r = self.expr()
            self.sym(")")
            return ("slice", base, first, "downto", r)
        if self.accept_kw("to"):
            r = self.expr()
            self.sym(")")
            return ("slice", base, first, "to", r)
        args = [first]
        while self.accept_sym(","):
            args.append(self.expr())
        self.sym(")")
        if base[0] == "name":
            return ("call", base[1], args)  # resolved later: index / conversion / function call
        if len(args) != 1:
            self.err("multi-dimensional index not supported")
        return ("index", base, args[0])

    def expr(self):
        # logical level
        lhs = self.relation()
        while self.peek().kind == "id" and self.peek().val.lower() in LOGICAL:
            op = self.next().val.lower()
            rhs = self.relation()
            lhs = ("bin", op, lhs, rhs)
        return lhs

    def relation(self):
        lhs = self.shift_expr()
        if self.peek().kind == "sym" and self.peek().val in RELATIONAL:
            op = self.next().val
            rhs = self.shift_expr()
            lhs = ("bin", op, lhs, rhs)
        return lhs

    def shift_expr(self):
        lhs = self.simple_expr()
        if self.peek().kind == "id" and self.peek().val.lower() in SHIFT:
            op = self.next().val.lower()
            rhs = self.simple_expr()
            lhs = ("bin", op, lhs, rhs)
        return lhs

    def simple_expr(self):
        sign = None
        if self.is_sym("+") or self.is_sym("-"):
            sign = self.next().val
        lhs = self.term()
        if sign == "-":
            lhs = ("un", "-", lhs)
        while self.peek().kind == "sym" and self.peek().val in ADDING:
            op = self.next().val
            rhs = self.term()
            lhs = ("bin", op, lhs, rhs)
        return lhs

    def term(self):
        lhs = self.factor()
        while (self.peek().kind == "sym" and self.peek().val in ("*", "/")) or (
            self.peek().kind == "id" and self.peek().val.lower() in ("mod", "rem")
        ):
            op = self.next().val
            op = op.lower() if isinstance(op, str) else op
            rhs = self.factor()
            lhs = ("bin", op, lhs, rhs)
        return lhs

    def factor(self):
        if self.is_kw("abs"):
            self.next()
            return ("un", "abs", self.primary())
        if self.is_kw("not"):
            self.next()
            return ("un", "not", self.primary())
        return self.primary()

    def primary(self):
        t = self.peek()
        if t.kind == "int":
            self.next()
            return ("int", t.val)
        if t.kind == "char":
            self.next()
            return ("char", t.val)
        if t.kind == "str":
            self.next()
            return ("str", t.val)
        if t.kind == "sym" and t.val == "(":
            self.next()
            # aggregate or parenthesised expression
            if self.is_kw("others"):
                return self.aggregate_rest([])
            first = self.expr()
            if self.is_sym("=>"):
                self.next()
                v = self.expr()
                return self.aggregate_rest([(first, v)], after_first=True)
            self.sym(")")
            return first
        if t.kind == "sym" and t.val == "-":
            # e.g. "(b >= -1)": a sign inside a relation's right operand (not strict VHDL grammar
            # for all positions, but what the back end prints)
            self.next()
            return ("un", "-", self.primary())
        if t.kind == "id":
            low = t.val.lower()
            if low in ("true", "false"):
                self.next()
                return ("bool", low == "true")
            if low in RESERVED:
                self.err("unexpected reserved word in expression")
            self.next()
            node = ("name", t.val)
            while True:
                if self.is_sym("'"):
                    # qualified expression  T'(expr)
                    self.next()
                    self.sym("(")
                    inner = self.expr()
                    self.sym(")")
                    node = ("qual", node[1] if node[0] == "name" else node, inner)
                elif self.is_sym("("):
                    node = self.suffix(node)
                else:
                    break
            return node
        self.err("expected expression")

    def aggregate_rest(self, items, after_first=False):
        while True:
            if after_first:
                after_first = False
            else:
                if self.accept_kw("others"):
                    self.sym("=>")
                    items.append((None, self.expr()))
                else:
                    c = self.expr()
                    self.sym("=>")
                    items.append((c, self.expr()))
            if self.accept_sym(","):
                continue
            self.sym(")")
            return ("agg", items)


def parse(text):
    return Parser(text).design_file()


def sexpr(node):
    """generic s-expression printer for AST nodes (used for the Lean protocol and hashing)"""
    if isinstance(node, tuple):
        return "(" + " ".join(sexpr(x) for x in node) + ")"
    if isinstance(node, list):
        return "[" + " ".join(sexpr(x) for x in node) + "]"
    if isinstance(node, dict):
        return "{" + " ".join(f"{k}={sexpr(v)}" for k, v in node.items() if k != "line") + "}"
    if node is None:
        return "nil"
    return str(node)
