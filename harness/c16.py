"""C16 - std timing utilities are exact to the clock.

Tie: wrapper entities around the real std.wait_for / Waiter.wait_for / DelayLine / delayed /
continuous_counter / ClockDivider / ToggleSignal / debounce are compiled by /repo's compiler, the emitted VHDL
is executed clock by clock by harness/vhdl_sim.py on generated start / enable / input / run-time-argument
sequences, and every output after every clock is compared with

  (1) the Lean step functions of lean/CohdlVerif/Model/C16Timing.lean (about which Props/C16.lean proves the
      closed forms for ALL durations, periods and sequences), through the driver `model_c16`, and
  (2) an independently written closed-form specification in this file ("stage i+1 is shown for exactly n_i
      clocks", "out(t) = in(t-n)", "tick iff k mod D = 0", ...).

`Duration.count_periods` is additionally called directly (Python level) and compared with the rational model.
A difference from the specification is a VIOLATION with (utility, parameters, input sequence) as replay,
minimised.
"""

import os
from fractions import Fraction

from .common import Ctx, compile_many, fork_map, import_cohdl
from . import lean_io
from .vhdl_sim import Design

HDR = '''
import cohdl
from cohdl import std, Bit, BitVector, Unsigned, Port, Signal, Null, Full
'''


# ---------------------------------------------------------------------------------------------------
# small helpers
# ---------------------------------------------------------------------------------------------------

def bit_length_width(m):
    """width of Unsigned.upto(m)"""
    return 1 if m == 0 else m.bit_length()


def dur_text(ps):
    """a std.Duration expression for an integer number of picoseconds (several units are used on purpose)"""
    if ps % 1_000_000 == 0 and ps:
        return f"std.us({ps // 1_000_000})"
    if ps % 1000 == 0 and (ps // 1000) % 2 == 0:
        return f"std.ns({ps // 1000})"
    if ps % 1000 == 0:
        return f"std.us({ps / 1_000_000!r})"
    return f"std.ps({ps})"


def ticks_request(ps, mhz):
    """duration / clock period = ps * 1e-12 * mhz * 1e6 = ps*mhz / 10^6 ; default allowed_delta 1e-9"""
    return f"cp {ps * mhz} 1000000 1 1000000000"


def first_diff(a, b):
    for i, (x, y) in enumerate(zip(a, b)):
        if x != y:
            return i
    return min(len(a), len(b)) if len(a) != len(b) else None


def shrink_inputs(ins, fails, legal=lambda s: True):
    """truncate behind the first difference is done by the caller; here: delta debugging on the clock list"""
    ins = list(ins)
    n = 2
    budget = 250
    while len(ins) >= 2 and budget > 0:
        chunk = max(1, len(ins) // n)
        reduced = False
        for i in range(0, len(ins), chunk):
            cand = ins[:i] + ins[i + chunk:]
            budget -= 1
            if cand and legal(cand) and fails(cand):
                ins = cand
                n = max(n - 1, 2)
                reduced = True
                break
            if budget <= 0:
                break
        if not reduced:
            if chunk == 1:
                break
            n = min(len(ins), n * 2)
    return ins


# ---------------------------------------------------------------------------------------------------
# wait_for / Waiter.wait_for
# ---------------------------------------------------------------------------------------------------
# a wait: dict(k='c'|'r'|'d', n=ticks (c) | ps (d), w=width (r), az=bool, waiter=None|int|('d',ps))

WAIT_SRC = HDR + '''
class W(cohdl.Entity):
    clk = Port.input(Bit)
    start = Port.input(Bit)
    nrt = Port.input(Unsigned[{RW}])
    stage = Port.output(Unsigned[4], default=0)

    def architecture(self):
        ctx = std.SequentialContext(std.Clock(self.clk{CLK}))
{WAITERS}
        @ctx
        async def proc():
            await self.start
{BODY}
            self.stage <<= 0
'''


def wait_source(prog, rw, mhz):
    waiters, body = [], []
    for i, w in enumerate(prog):
        if w["k"] == "c":
            arg = str(w["n"])
        elif w["k"] == "d":
            arg = dur_text(w["n"])
        else:
            arg = "self.nrt"
        if w["az"]:
            arg += ", allow_zero=True"
        if w["waiter"] is None:
            call = f"std.wait_for({arg})"
        else:
            m = w["waiter"]
            mt = dur_text(m[1]) if isinstance(m, (tuple, list)) else str(m)
            waiters.append(f"        waiter{i} = std.Waiter({mt})")
            call = f"waiter{i}.wait_for({arg})"
        body.append(f"            self.stage <<= {i + 1}")
        body.append(f"            await {call}")
    clk = f", frequency=std.MHz({mhz})" if mhz else ""
    return WAIT_SRC.format(RW=rw, CLK=clk, WAITERS="\n".join(waiters), BODY="\n".join(body))


def wait_lean_prog(prog, mhz, cp):
    """tokens of the Lean request; Durations are converted with the rational model `cp` (None = reject)"""
    toks = []
    for w in prog:
        if w["k"] == "r":
            t = ("y" if w["az"] else "r") + str(w["w"])
        else:
            n = w["n"] if w["k"] == "c" else cp(w["n"], mhz)
            if n is None:
                return None
            t = ("z" if w["az"] else "c") + str(n)
        m = w["waiter"]
        if m is not None:
            if isinstance(m, (tuple, list)):
                m = cp(m[1], mhz)
                if m is None:
                    return None
            t += f"@{m}"
        toks.append(t)
    return toks


def spec_wait(toks, ins):
    """closed form, written as a timeline (not as a state machine): a wait reached in clock c with duration n lets
    the statement after it run in clock c+n; stage i+1 is therefore shown after the clocks c .. c+n-1"""
    T = len(ins)
    out = [0] * T
    t = 0
    while t < T:
        if not ins[t][0]:
            t += 1
            continue
        cur = t
        done = True
        for i, tok in enumerate(toks):
            tok = tok.split("@")[0]
            n = int(tok[1:]) if tok[0] in "cz" else ins[cur][1]
            for u in range(cur, min(cur + n, T)):
                out[u] = i + 1
            cur += n
            if cur >= T:
                done = False
                break
        if done:
            out[cur] = 0
        t = cur + 1
    return [str(x) for x in out]


def gen_wait_inputs(rng, toks, length):
    """start pulses in all phase relations to the running wait (held high, single pulses, bursts) and run-time
    values that respect the contract (>= 1 unless every run-time wait allows zero, <= the Waiter maximum)"""
    rts = [t for t in toks if t[0] in "ry"]
    lo = 0 if rts and all(t[0] == "y" for t in rts) else 1
    hi = 40
    for t in rts:
        w = int(t[1:].split("@")[0])
        hi = min(hi, (1 << w) - 1)
        if "@" in t:
            hi = min(hi, int(t.split("@")[1]))
    mode = rng.choice(["held", "sparse", "dense", "burst"])
    small = rng.random() < 0.5
    ins = []
    for _ in range(length):
        if mode == "held":
            s = 1
        elif mode == "sparse":
            s = int(rng.random() < 0.08)
        elif mode == "dense":
            s = int(rng.random() < 0.6)
        else:
            s = int(rng.random() < 0.3)
            if rng.random() < 0.05:
                mode = rng.choice(["held", "sparse", "dense", "burst"])
        if not rts:
            v = 0
        elif lo == 0 and rng.random() < 0.3:
            v = 0
        else:
            v = rng.randint(max(lo, 1), min(hi, 6) if small else hi)
        ins.append((s, v))
    return ins


def sim_wait(vhdl, ins):
    d = Design(vhdl)
    for p in ("clk", "start", "nrt"):
        d.set(p, 0)
    d.initialise()
    out = []
    for s, v in ins:
        d.set("start", s)
        d.set("nrt", v)
        d.settle()
        d.clock("clk")
        out.append(fmt(d.get("stage")))
    return out, len(d.asserts_failed)


# ---------------------------------------------------------------------------------------------------
# DelayLine / delayed
# ---------------------------------------------------------------------------------------------------

DELAY_A = HDR + '''
class W(cohdl.Entity):
    clk = Port.input(Bit)
    en = Port.input(Bit)
    inp = Port.input(Unsigned[4])
    q = Port.output(Unsigned[4])
    tap = Port.output(Unsigned[4])

    def architecture(self):
        ctx = std.SequentialContext(std.Clock(self.clk))
        dl = std.DelayLine(self.inp, {N}{INIT}, ctx=ctx)
        std.concurrent_assign(self.q, dl.last())
        std.concurrent_assign(self.tap, dl[{TAP}])
'''

DELAY_B = HDR + '''
class W(cohdl.Entity):
    clk = Port.input(Bit)
    en = Port.input(Bit)
    inp = Port.input(Unsigned[4])
    q = Port.output(Unsigned[4])
    tap = Port.output(Unsigned[4])

    def architecture(self):
        ctx = std.SequentialContext(std.Clock(self.clk))

        @ctx
        def proc():
            if self.en:
                self.q <<= std.delayed(self.inp, {N}{INIT})
'''

INITS = {"none": ("", None), "null": (", initial=Null", 0), "full": (", initial=Full", 15),
         "val": (", initial=Unsigned[4](9)", 9)}


def delay_source(variant, N, init):
    return (DELAY_A if variant == "A" else DELAY_B).format(N=N, INIT=INITS[init][0], TAP=N // 2)


def spec_delay(variant, N, init, ins):
    """out(t) = in(t - N), the initial value before; variant B: time counts enabled clocks only and the
    registered output port adds one stage without initial value"""
    iv = INITS[init][1]
    out = []
    if variant == "A":
        xs = [x for _, x in ins]
        for t in range(len(ins)):
            # after clock t the line has consumed xs[0..t]
            o = xs[t] if N == 0 else (xs[t + 1 - N] if t + 1 - N >= 0 else iv)
            tp = N // 2
            tv = xs[t] if tp == 0 else (xs[t + 1 - tp] if t + 1 - tp >= 0 else iv)
            out.append(f"{fmt(o)}/{fmt(tv)}")
    else:
        seen = []
        for en, x in ins:
            if en:
                seen.append(x)
            k = len(seen)
            if k == 0:
                o = None
            else:
                j = k - 1 - N
                o = seen[j] if j >= 0 else iv
            out.append(f"{fmt(o)}/*")
    return out


def lean_delay_out(variant, N, answer, ins):
    """observable of the Lean state: last stage (the input itself for N = 0) and the middle tap"""
    out = []
    for cell, (en, x) in zip(answer.split(","), ins):
        cells = cell.split(".") if cell else []
        if variant == "A":
            o = cells[-1] if cells else str(x)
            tp = N // 2
            tv = str(x) if tp == 0 else cells[tp - 1]
            out.append(f"{o}/{tv}")
        else:
            out.append(f"{cells[-1]}/*")
    return out


def sim_delay(vhdl, variant, ins):
    d = Design(vhdl)
    for p in ("clk", "en", "inp"):
        d.set(p, 0)
    d.initialise()
    out = []
    for en, x in ins:
        d.set("en", en)
        d.set("inp", x)
        d.settle()
        d.clock("clk")
        out.append(f"{fmt(d.get('q'))}/{fmt(d.get('tap')) if variant == 'A' else '*'}")
    return out, len(d.asserts_failed)


# ---------------------------------------------------------------------------------------------------
# continuous_counter
# ---------------------------------------------------------------------------------------------------

CC_SRC = HDR + '''
class W(cohdl.Entity):
    clk = Port.input(Bit)
    rst = Port.input(Bit)
    lim = Port.input(Unsigned[{RW}])
    q = Port.output(Unsigned[8])

    def architecture(self):
        ctx = std.SequentialContext(std.Clock(self.clk), std.Reset(self.rst))
        c = std.continuous_counter(ctx, {LIMIT}{SAL})

        @std.concurrent
        def logic():
            self.q <<= c
'''


def spec_cc(rt, sal, ins):
    """constant limit: counter = (clocks since the initial value was (re)loaded + initial) mod (limit+1);
    run-time limit: documented behaviour `0 if counter >= limit else counter + 1`"""
    out = []
    if not rt:
        L = ins[0][1]
        base = L if sal else 0
        k = 0
        for r, _ in ins:
            k = 0 if r else k + 1
            out.append(str((base + k) % (L + 1)))
    else:
        c = 0
        for r, l in ins:
            c = 0 if r or c >= l else c + 1
            out.append(str(c))
    return out


def sim_cc(vhdl, ins):
    d = Design(vhdl)
    for p in ("clk", "rst", "lim"):
        d.set(p, 0)
    d.set("lim", ins[0][1])
    d.initialise()
    out = []
    for r, l in ins:
        d.set("rst", r)
        d.set("lim", l)
        d.settle()
        d.clock("clk")
        out.append(fmt(d.get("q")))
    return out, 0


# ---------------------------------------------------------------------------------------------------
# ClockDivider / ToggleSignal
# ---------------------------------------------------------------------------------------------------

PULSE_SRC = HDR + '''
class W(cohdl.Entity):
    clk = Port.input(Bit)
    r = Port.input(Bit)
    a = Port.input(Unsigned[{RW}])
    b = Port.input(Unsigned[{RW}])
    q = Port.output(BitVector[3])

    def architecture(self):
        ctx = std.SequentialContext(std.Clock(self.clk{CLK}))
        x = {CTOR}
{RESET}
        @std.concurrent
        def logic():
            self.q[0] <<= x.state()
            self.q[1] <<= x.rising()
            self.q[2] <<= x.falling()
'''

RESET_FORMS = {
    "none": "",
    "direct": "        std.concurrent_assign(x.get_reset_signal(), self.r)\n",
    "reg": "        @ctx\n        def p_en():\n            if self.r:\n                x.enable()\n            else:\n                x.disable()\n",
}


def pulse_source(ctor, rw, reset, mhz=None):
    clk = f", frequency=std.MHz({mhz})" if mhz else ""
    return PULSE_SRC.format(RW=rw, CLK=clk, CTOR=ctor, RESET=RESET_FORMS[reset])


def eff_resets(reset, req, rs):
    """the reset seen by the counter process in every clock"""
    if reset == "none":
        return [int(req)] * len(rs)
    if reset == "direct":
        return list(rs)
    out, reg = [], int(req)
    for en in rs:
        out.append(reg)
        reg = 0 if en else 1
    return out


def pulse_code(st, prev):
    return str(int(st) + 2 * int((not prev) and st) + 4 * int(prev and not st))


def spec_div(D, default, tas, resets):
    """period and phase in closed form: k = number of clocks since the counter was released; the state differs from
    default_state exactly when k mod D = 0 (tick_at_start: k mod D = 1 mod D); rising / falling are the one-clock
    differences of the state"""
    out, k, prev = [], 0, default
    for r in resets:
        if r:
            k, prev = 0, default
            out.append(str(int(default)))
            continue
        k += 1
        tick = (k % D == (1 % D if tas else 0))
        st = (not default) if tick else default
        out.append(pulse_code(st, prev))
        prev = st
    return out


def spec_tog(F, S, default, first, resets):
    """state = first_state while (k mod (F+S)) < F, else the opposite (k = clocks since release)"""
    out, k, prev = [], 0, default
    for r in resets:
        if r:
            k, prev = 0, default
            out.append(str(int(default)))
            continue
        k += 1
        lt = (k % (F + S)) < F
        st = lt if first else not lt
        out.append(pulse_code(st, prev))
        prev = st
    return out


def sim_pulse(vhdl, ins):
    d = Design(vhdl)
    for p in ("clk", "r", "a", "b"):
        d.set(p, 0)
    d.set("a", ins[0][1])
    d.set("b", ins[0][2])
    d.initialise()
    n0 = len(d.asserts_failed)
    out = []
    for r, a, b in ins:
        d.set("r", r)
        d.set("a", a)
        d.set("b", b)
        d.settle()
        d.clock("clk")
        out.append(fmt(d.get("q")))
    return out, len(d.asserts_failed) - n0


# ---------------------------------------------------------------------------------------------------
# debounce
# ---------------------------------------------------------------------------------------------------

DEB_SRC = HDR + '''
class W(cohdl.Entity):
    clk = Port.input(Bit)
    inp = Port.input(Bit)
    q = Port.output(Bit)

    def architecture(self):
        ctx = std.SequentialContext(std.Clock(self.clk{CLK}))
        std.concurrent_assign(self.q, std.debounce(ctx, self.inp, {PERIOD}, initial={INITIAL}))
'''


def spec_deb(period, initial, bits):
    """the documented saturating up/down counter (the upstream MockDebounce)"""
    cnt, val, out = period // 2, bool(initial), []
    for b in bits:
        if b:
            if cnt == period:
                val = True
            cnt = min(cnt + 1, period)
        else:
            if cnt == 0:
                val = False
            cnt = max(cnt - 1, 0)
        out.append(str(int(val)))
    return out


def sim_deb(vhdl, bits):
    d = Design(vhdl)
    for p in ("clk", "inp"):
        d.set(p, 0)
    d.initialise()
    out = []
    for b in bits:
        d.set("inp", b)
        d.settle()
        d.clock("clk")
        out.append(fmt(d.get("q")))
    return out, 0


def gen_bits(rng, length, period):
    """long runs (saturation at both ends), chatter, random"""
    out, b = [], rng.randrange(2)
    while len(out) < length:
        m = rng.choice(["run", "chatter", "rand", "short"])
        if m == "run":
            out += [b] * rng.randint(period, 2 * period + 3)
            b ^= 1
        elif m == "short":
            out += [b] * rng.randint(1, max(1, period))
            b ^= 1
        elif m == "chatter":
            out += [i % 2 for i in range(rng.randint(2, 12))]
        else:
            out += [rng.randrange(2) for _ in range(rng.randint(3, 20))]
    return out[:length]


def fmt(v):
    return "-" if v is None else str(v)


# ---------------------------------------------------------------------------------------------------
# generic case handling.  A case = dict(kind, sig (stable text), src, ins, req (Lean request head), meta)
# ---------------------------------------------------------------------------------------------------

def sim_case(kind, vhdl, meta, ins):
    if kind == "wait":
        return sim_wait(vhdl, ins)
    if kind == "delay":
        return sim_delay(vhdl, meta["variant"], ins)
    if kind == "cc":
        return sim_cc(vhdl, ins)
    if kind in ("div", "tog"):
        return sim_pulse(vhdl, ins)
    if kind == "deb":
        return sim_deb(vhdl, [b for (b,) in ins])
    raise ValueError(kind)


def spec_case(kind, meta, ins):
    """closed-form expectation, or None where only the step semantics is specified"""
    if kind == "wait":
        return spec_wait(meta["toks"], ins)
    if kind == "delay":
        return spec_delay(meta["variant"], meta["N"], meta["init"], ins)
    if kind == "cc":
        return spec_cc(meta["rt"], meta["sal"], ins)
    if kind == "div":
        if any(i[1] != ins[0][1] for i in ins):
            return None  # run-time duration changed on the way: the step function is the specification
        return spec_div(ins[0][1], meta["default"], meta["tas"], eff_resets(meta["reset"], meta["req"], [i[0] for i in ins]))
    if kind == "tog":
        if any(i[1:] != ins[0][1:] for i in ins):
            return None
        return spec_tog(ins[0][1], ins[0][2], meta["default"], meta["first"],
                        eff_resets(meta["reset"], meta["req"], [i[0] for i in ins]))
    if kind == "deb":
        return spec_deb(meta["period"], meta["initial"], [b for (b,) in ins])
    raise ValueError(kind)


def lean_request(kind, meta, ins):
    return meta["head"] + " | " + " ".join(":".join(str(x) for x in i) for i in ins)


def lean_out(kind, meta, answer, ins):
    if answer in ("bad-op", "reject"):
        return [answer]
    if kind == "delay":
        return lean_delay_out(meta["variant"], meta["N"], answer, ins)
    if kind == "deb":
        return [c.split("/")[0] for c in answer.split(",")]
    return answer.split(",")


def _sim_group(t):
    """all sequences of one wrapper (the VHDL text is parsed once per sequence by Design, which dominates short runs)"""
    vhdl, items = t
    out = []
    for kind, meta, ins in items:
        try:
            out.append(("ok", sim_case(kind, vhdl, meta, ins)))
        except Exception as e:  # noqa
            out.append(("exc", f"{type(e).__name__}: {e}"))
    return out


def legal_inputs(kind, meta):
    """the contract of the utilities on the inputs (used while shrinking: removing clocks keeps it)"""
    return lambda s: len(s) >= 1


# ---------------------------------------------------------------------------------------------------
# case generation
# ---------------------------------------------------------------------------------------------------

QUICK_N = [1, 2, 3, 4, 5, 7, 8, 9, 16, 17, 31, 33, 40]


def make_cp(table):
    def cp(ps, mhz):
        v = table[(ps, mhz)]
        return None if v == "reject" else int(v)
    return cp


def build_cases(ctx):
    rng = ctx.rng
    ns = QUICK_N if ctx.quick else list(range(1, 41))
    cases = []

    def add(kind, sig, src, meta, ins_list):
        for ins in ins_list:
            cases.append({"kind": kind, "sig": sig, "src": src, "meta": meta, "ins": ins})

    # ---- Duration -> ticks table (rational model), for all (duration, clock) pairs used in designs
    dur_pairs = [(20000, 100), (50000, 100), (10000, 100), (5000, 200), (2000, 1000), (1000, 1000), (5000, 1000),
                 (400000, 100), (120000, 25), (1000000, 33), (1000000, 40), (30000, 125), (12000, 250),
                 (12500, 80), (25000, 100), (7000, 1000), (3000000, 13), (160000, 250), (1500, 1000), (11000, 1000),
                 (9000, 1000), (40000, 1000), (8000, 125), (16000, 125), (8000, 250), (320000, 125), (32000, 125), (25000, 80), (20000, 1000)]
    answers = lean_io.query("C16", [ticks_request(ps, mhz) for ps, mhz in dur_pairs])
    table = dict(zip(dur_pairs, answers))
    cp = make_cp(table)

    # ---- wait_for ----------------------------------------------------------------------------------
    n_seq = ctx.scale(2, 5)
    length = ctx.scale(130, 260)
    progs = []
    for n in ns:
        progs.append(([{"k": "c", "n": n, "az": False, "waiter": None}], 3, None))
        progs.append(([{"k": "c", "n": n, "az": n % 2 == 0, "waiter": rng.choice([n, 40, n + 1])}], 3, None))
    for w in (3, 6) if ctx.quick else (1, 2, 3, 4, 5, 6):
        progs.append(([{"k": "r", "w": w, "az": False, "waiter": None}], w, None))
        progs.append(([{"k": "r", "w": w, "az": True, "waiter": None}], w, None))
        progs.append(([{"k": "r", "w": w, "az": False, "waiter": (1 << w) - 1}], w, None))
        progs.append(([{"k": "r", "w": w, "az": True, "waiter": min(40, (1 << w) - 1)}], w, None))
    # zero waits, rejected programs
    progs.append(([{"k": "c", "n": 0, "az": True, "waiter": None}], 3, None))
    progs.append(([{"k": "c", "n": 0, "az": True, "waiter": 5}], 3, None))
    progs.append(([{"k": "c", "n": 0, "az": False, "waiter": None}], 3, None))
    progs.append(([{"k": "c", "n": 0, "az": False, "waiter": 5}], 3, None))
    progs.append(([{"k": "c", "n": 6, "az": False, "waiter": 5}], 3, None))
    progs.append(([{"k": "c", "n": 3, "az": False, "waiter": None}, {"k": "c", "n": 0, "az": True, "waiter": None},
                   {"k": "c", "n": 2, "az": False, "waiter": None}], 3, None))
    # Durations with several clock frequencies (exact multiples, non-multiples = rejected)
    for ps, mhz in dur_pairs[: ctx.scale(14, len(dur_pairs))]:
        progs.append(([{"k": "d", "n": ps, "az": False, "waiter": None}], 3, mhz))
    progs.append(([{"k": "d", "n": 50000, "az": True, "waiter": None}], 3, 100))
    progs.append(([{"k": "d", "n": 50000, "az": True, "waiter": ("d", 400000)}], 3, 100))
    progs.append(([{"k": "d", "n": 50000, "az": False, "waiter": ("d", 20000)}], 3, 100))
    progs.append(([{"k": "c", "n": 8, "az": False, "waiter": ("d", 120000)}], 3, 25))
    progs.append(([{"k": "r", "w": 5, "az": False, "waiter": ("d", 400000)}], 5, 100))
    # random programs of 2..4 waits
    for _ in range(ctx.scale(24, 120)):
        k = rng.randint(2, 4)
        w = rng.choice([3, 4, 6])
        prog = []
        for _ in range(k):
            kind = rng.choice("ccrrd")
            az = rng.random() < 0.35
            if kind == "c":
                n = rng.choice([0, 1, 1, 2, 2, 3, 5, 8, 13]) if az else rng.choice([1, 1, 2, 2, 3, 4, 7, 12])
                wt = rng.choice([None, None, max(n, 1), 20])
                prog.append({"k": "c", "n": n, "az": az, "waiter": wt})
            elif kind == "r":
                prog.append({"k": "r", "w": w, "az": az, "waiter": rng.choice([None, (1 << w) - 1])})
            else:
                ps = rng.choice([20000, 50000, 10000, 25000])
                prog.append({"k": "d", "n": ps, "az": az, "waiter": None})
        progs.append((prog, w, 100))
    for prog, rw, mhz in progs:
        toks = wait_lean_prog(prog, mhz, cp)
        src = wait_source(prog, rw, mhz)
        if toks is None:
            # a Duration that is no multiple of the clock period: the compiler has to reject the design
            cases.append({"kind": "wait", "sig": "wait:" + prog_text(prog, mhz), "src": src,
                          "meta": {"toks": None, "head": None, "prog": prog_text(prog, mhz)}, "ins": None})
            continue
        meta = {"toks": toks, "head": "wait " + " ".join(toks), "prog": prog_text(prog, mhz), "waits": prog, "rw": rw, "mhz": mhz}
        add("wait", "wait:" + prog_text(prog, mhz), src, meta, [gen_wait_inputs(rng, toks, length) for _ in range(n_seq)])

    # ---- DelayLine / delayed -------------------------------------------------------------------------
    dn = [0] + ns
    for N in dn:
        for variant in "AB":
            for init in (["none", "null", "full", "val"] if (N <= 2 or not ctx.quick) else [rng.choice(["none", "null", "full", "val"])]):
                ins_list = []
                for _ in range(ctx.scale(1, 3)):
                    dens = rng.choice([0.3, 0.7, 0.95])
                    ins_list.append([(1 if variant == "A" else int(rng.random() < dens), rng.randrange(16))
                                     for _ in range(ctx.scale(2 * N + 30, 3 * N + 80))])
                cells = [fmt(INITS[init][1])] * N + (["-"] if variant == "B" else [])
                meta = {"variant": variant, "N": N, "init": init, "head": "delay " + " ".join(cells)}
                add("delay", f"delay:{variant}:N={N}:init={init}", delay_source(variant, N, init), meta, ins_list)

    # ---- continuous_counter ------------------------------------------------------------------------------
    for L in [0] + ns:
        for sal in ((False, True) if (L <= 4 or not ctx.quick) else (rng.random() < 0.5,)):
            w = bit_length_width(L)
            ins_list = []
            for _ in range(ctx.scale(1, 3)):
                p = rng.choice([0.0, 0.02, 0.1])
                ins_list.append([(int(rng.random() < p), L) for _ in range(3 * L + 40)])
            meta = {"rt": False, "sal": sal, "head": f"cc 0 {w} {int(sal)}"}
            src = CC_SRC.format(RW=6, LIMIT=L, SAL=", start_at_limit=True" if sal else "")
            add("cc", f"cc:const:L={L}:sal={int(sal)}", src, meta, ins_list)
    for w in (1, 2, 3, 6) if ctx.quick else (1, 2, 3, 4, 5, 6):
        ins_list = []
        for _ in range(ctx.scale(3, 8)):
            seq, l = [], rng.randrange(1 << w)
            hold = rng.choice([0.0, 0.03, 0.3])
            for _ in range(ctx.scale(150, 400)):
                if rng.random() < hold:
                    l = rng.randrange(1 << w)
                seq.append((int(rng.random() < 0.03), l))
            ins_list.append(seq)
        meta = {"rt": True, "sal": False, "head": f"cc 1 {w} 0"}
        add("cc", f"cc:rt:w={w}", CC_SRC.format(RW=w, LIMIT="self.lim", SAL=""), meta, ins_list)

    # ---- ClockDivider ----------------------------------------------------------------------------------------
    def reset_seq(reset, n):
        if reset == "none":
            return [0] * n
        mode = rng.choice(["rare", "blocks"])
        out, v = [], rng.randrange(2)
        for _ in range(n):
            if mode == "rare":
                active = rng.random() < 0.04
                out.append(int(active) if reset == "direct" else int(not active))
            else:
                if rng.random() < 0.06:
                    v ^= 1
                out.append(v)
        return out

    for D in [n for n in ns if n >= 2]:
        combos = [(d, t, rs, rq) for d in (False, True) for t in (False, True) for rs in ("none", "direct", "reg") for rq in (False, True)
                  if not (rs == "none" and rq)]
        combos = rng.sample(combos, ctx.scale(2, 8))
        for default, tas, reset, req in combos:
            ctor = f"std.ClockDivider(ctx, {D}, default_state={default}, tick_at_start={tas}, require_enable={req})"
            w = bit_length_width(D - 1)
            meta = {"default": default, "tas": tas, "reset": reset, "req": req,
                    "head": f"div 0 {w} {int(default)} {int(tas)} {int(reset == 'reg')} {int(req)}"}
            ins_list = [[(r, D, 0) for r in reset_seq(reset, 4 * D + 40)] for _ in range(ctx.scale(1, 2))]
            add("div", f"div:const:D={D}:default={int(default)}:tas={int(tas)}:reset={reset}:req={int(req)}",
                pulse_source(ctor, 6, reset), meta, ins_list)
    for w in (2, 3, 6) if ctx.quick else (2, 3, 4, 5, 6):
        for default in (False, True):
            for reset, req in (("none", False), ("direct", False), ("reg", True)):
                ctor = f"std.ClockDivider(ctx, self.a, default_state={default}, require_enable={req})"
                meta = {"default": default, "tas": False, "reset": reset, "req": req,
                        "head": f"div 1 {w} {int(default)} 0 {int(reset == 'reg')} {int(req)}"}
                ins_list = []
                for i in range(ctx.scale(3, 8)):
                    n = ctx.scale(160, 400)
                    rs = reset_seq(reset, n)
                    dv = rng.randint(1, (1 << w) - 1)
                    seq = []
                    for r in rs:
                        if i % 3 == 2 and rng.random() < 0.03:
                            dv = rng.randint(1, (1 << w) - 1)
                        seq.append((r, dv, 0))
                    ins_list.append(seq)
                add("div", f"div:rt:w={w}:default={int(default)}:reset={reset}:req={int(req)}",
                    pulse_source(ctor, w, reset), meta, ins_list)
    for ps, mhz in [(20000, 100), (2000, 1000), (400000, 100), (120000, 25), (32000, 125), (25000, 80), (20000, 1000)]:
        D = cp(ps, mhz)
        ctor = f"std.ClockDivider(ctx, {dur_text(ps)})"
        meta = {"default": False, "tas": False, "reset": "none", "req": False, "head": f"div 0 {bit_length_width(D - 1)} 0 0 0 0"}
        add("div", f"div:duration:{ps}ps@{mhz}MHz", pulse_source(ctor, 6, "none", mhz), meta, [[(0, D, 0)] * (3 * D + 10)])

    # ---- ToggleSignal ------------------------------------------------------------------------------------------
    fs = [(1, 1), (1, 2), (2, 1), (3, 5), (0, 1), (1, 0), (0, 3), (4, 0), (7, 9), (16, 17), (1, 39), (39, 1), (20, 20), (5, 5)]
    if not ctx.quick:
        fs += [(a, b) for a in range(0, 6) for b in range(0, 6) if a + b >= 1] + [(rng.randint(0, 40), rng.randint(1, 40)) for _ in range(15)]
    for F, S in fs:
        combos = [(d, f, rs, rq) for d in (False, True) for f in (False, True) for rs in ("none", "direct", "reg") for rq in (False, True)
                  if not (rs == "none" and rq)]
        combos = rng.sample(combos, ctx.scale(2, 6))
        for default, first, reset, req in combos:
            ctor = f"std.ToggleSignal(ctx, {F}, {S}, default_state={default}, first_state={first}, require_enable={req})"
            wc = bit_length_width(F + S - 1)
            meta = {"default": default, "first": first, "reset": reset, "req": req,
                    "head": f"tog 0 {wc} {int(default)} {int(first)} {int(reset == 'reg')} {int(req)}"}
            ins_list = [[(r, F, S) for r in reset_seq(reset, 4 * (F + S) + 40)] for _ in range(ctx.scale(1, 2))]
            add("tog", f"tog:const:F={F}:S={S}:default={int(default)}:first={int(first)}:reset={reset}:req={int(req)}",
                pulse_source(ctor, 6, reset), meta, ins_list)
    # single-duration form (second = first)
    for F in (1, 3, 8):
        ctor = f"std.ToggleSignal(ctx, {F})"
        meta = {"default": False, "first": False, "reset": "none", "req": False, "head": f"tog 0 {bit_length_width(2 * F - 1)} 0 0 0 0"}
        add("tog", f"tog:single:F={F}", pulse_source(ctor, 6, "none"), meta, [[(0, F, F)] * (6 * F + 10)])
    for w in (2, 3, 5) if ctx.quick else (2, 3, 4, 5, 6):
        for first in (False, True):
            for reset, req in (("none", False), ("direct", False), ("reg", True)):
                default = rng.random() < 0.5
                ctor = f"std.ToggleSignal(ctx, self.a, self.b, default_state={default}, first_state={first}, require_enable={req})"
                wc = bit_length_width(2 * ((1 << w) - 1) - 1)
                meta = {"default": default, "first": first, "reset": reset, "req": req,
                        "head": f"tog 1 {wc} {int(default)} {int(first)} {int(reset == 'reg')} {int(req)}"}
                ins_list = []
                for i in range(ctx.scale(3, 8)):
                    n = ctx.scale(160, 400)
                    rs = reset_seq(reset, n)
                    a, b = rng.randint(0, (1 << w) - 1), rng.randint(1, (1 << w) - 1)
                    seq = []
                    for r in rs:
                        if i % 3 == 2 and rng.random() < 0.03:
                            a, b = rng.randint(0, (1 << w) - 1), rng.randint(1, (1 << w) - 1)
                        seq.append((r, a, b))
                    ins_list.append(seq)
                add("tog", f"tog:rt:w={w}:default={int(default)}:first={int(first)}:reset={reset}:req={int(req)}",
                    pulse_source(ctor, w, reset), meta, ins_list)
    # mixed: constant first, run-time second
    ctor = "std.ToggleSignal(ctx, 3, self.b, first_state=True)"
    meta = {"default": False, "first": True, "reset": "none", "req": False, "head": f"tog 1 {bit_length_width(3 + 7 - 1)} 0 1 0 0"}
    add("tog", "tog:mixed:F=3:w=3", pulse_source(ctor, 3, "none"), meta,
        [[(0, 3, b)] * 90 for b in (0, 1, 4, 7)])
    for (psa, psb, mhz) in [(20000, 50000, 100), (2000, 1000, 1000), (120000, 120000, 25)]:
        F, S = cp(psa, mhz), cp(psb, mhz)
        ctor = f"std.ToggleSignal(ctx, {dur_text(psa)}, {dur_text(psb)}, first_state=True)"
        meta = {"default": False, "first": True, "reset": "none", "req": False, "head": f"tog 0 {bit_length_width(F + S - 1)} 0 1 0 0"}
        add("tog", f"tog:duration:{psa}ps:{psb}ps@{mhz}MHz", pulse_source(ctor, 6, "none", mhz), meta, [[(0, F, S)] * (3 * (F + S) + 10)])

    # ---- debounce --------------------------------------------------------------------------------------------------
    for P in ns:
        for initial in ((False, True) if (P <= 5 or not ctx.quick) else (rng.random() < 0.5,)):
            meta = {"period": P, "initial": initial, "head": f"deb {P} {int(initial)}"}
            src = DEB_SRC.format(CLK="", PERIOD=P, INITIAL=initial)
            ins_list = [[(b,) for b in gen_bits(rng, 8 * P + 60, P)] for _ in range(ctx.scale(2, 4))]
            ins_list.append([(1,)] * (2 * P + 3) + [(0,)] * (2 * P + 3) + [(1,)] * (P + 2))
            add("deb", f"deb:P={P}:initial={int(initial)}", src, meta, ins_list)
    for ps, mhz in [(20000, 1000), (11000, 1000), (9000, 1000), (50000, 100), (120000, 25)]:
        P = cp(ps, mhz)
        meta = {"period": P, "initial": True, "head": f"deb {P} 1"}
        src = DEB_SRC.format(CLK=f", frequency=std.MHz({mhz})", PERIOD=dur_text(ps), INITIAL=True)
        add("deb", f"deb:duration:{ps}ps@{mhz}MHz", src, meta, [[(b,) for b in gen_bits(rng, 8 * P + 60, P)]])
    return cases


def prog_text(prog, mhz):
    parts = []
    for w in prog:
        if w["k"] == "r":
            t = f"rt{w['w']}"
        elif w["k"] == "d":
            t = f"{w['n']}ps@{mhz}MHz"
        else:
            t = str(w["n"])
        if w["az"]:
            t += "z"
        m = w["waiter"]
        if m is not None:
            t += f"@W{m[1]}ps" if isinstance(m, (tuple, list)) else f"@W{m}"
        parts.append(t)
    return ",".join(parts)


# ---------------------------------------------------------------------------------------------------
# Duration.count_periods, called directly
# ---------------------------------------------------------------------------------------------------

def _cp_task(items):
    import_cohdl()
    from cohdl import std
    out = []
    for (fa, fb, delta) in items:
        # durations are built from frequencies (float(f) exact), as Clock(frequency=...).period() does
        try:
            d = std.Duration(std.Frequency(fa))
            p = std.Duration(std.Frequency(fb))
            out.append(str(d.count_periods(p, allowed_delta=delta)))
        except AssertionError:
            out.append("reject")
        except Exception as e:  # noqa
            out.append("exc:" + type(e).__name__)
    return out


def cp_cases(ctx):
    """(freq_a, freq_b, allowed_delta) : ratio q = freq_b / freq_a.  Cases whose exact relative rounding error is within
    1e-6 of allowed_delta, or whose fraction is within 1e-9 of a tie without being representable exactly, are left out
    (the floating point evaluation of the real code is not modelled)"""
    rng = ctx.rng
    items = []
    deltas = [(1, 10 ** 9), (1, 100), (1, 10), (1, 4), (4, 10), (1, 2), (0, 1)]
    exact_f = [2 ** a * 5 ** b for a in range(0, 8) for b in range(0, 5)]  # 1e12/f is exact in binary64
    for _ in range(ctx.scale(1500, 8000)):
        m = rng.random()
        if m < 0.35:
            fa = rng.choice(exact_f)
            fb = rng.choice(exact_f)
        elif m < 0.7:
            fa = rng.randint(1, 400)
            fb = fa * rng.randint(1, 60)
            if rng.random() < 0.4:
                fb += rng.randint(-fa + 1, fa - 1) if fa > 1 else 0
        else:
            fa = rng.randint(1, 2000)
            fb = rng.randint(1, 4000)
        if fb <= 0:
            continue
        dn, dd = rng.choice(deltas)
        q = Fraction(fb, fa)
        fl = q.numerator // q.denominator
        frac = q - fl
        tie = frac == Fraction(1, 2)
        if tie and not (fa in exact_f and fb in exact_f):
            continue
        if not tie and abs(frac - Fraction(1, 2)) < Fraction(1, 10 ** 6):
            continue
        k = fl if frac < Fraction(1, 2) else fl + 1
        if tie:
            k = fl if fl % 2 == 0 else fl + 1
        err = abs(k - q) / q
        if abs(err - Fraction(dn, dd)) < Fraction(1, 10 ** 6) and err != 0:
            continue
        if err == 0 and not (fa in exact_f and fb in exact_f) and dn == 0:
            continue  # exact ratio evaluated in floating point may be off by an ulp: allowed_delta = 0 is not portable
        items.append((fa, fb, dn, dd))
    return items


# ---------------------------------------------------------------------------------------------------
# run
# ---------------------------------------------------------------------------------------------------

def run(ctx: Ctx):
    ctx.rule = ("wrapper entities around the real std timing utilities (wait_for / Waiter programs of 1-4 waits with constant, "
                "run-time, Duration and zero durations; DelayLine / delayed with and without enable; continuous_counter; "
                "ClockDivider; ToggleSignal; debounce) for durations / periods <= 40, executed clock by clock on generated "
                "start / enable / reset / input / run-time-argument sequences in all phase relations; one case = (configuration, "
                "input sequence); non-trivial = the observed output changes at least twice; distinct = distinct (configuration, sequence)")
    import time
    t0 = time.time()
    cases = build_cases(ctx)
    only = os.environ.get("COHDL_VERIF_C16_KINDS")  # development aid: restrict to some utilities (wait,delay,cc,div,tog,deb,cp)
    if only:
        cases = [c for c in cases if c["kind"] in only.split(",")]
        ctx.notes.append(f"restricted to {only}")
    ctx.extra["t_build_cases"] = round(time.time() - t0, 1)

    # compile every distinct wrapper once
    srcs = sorted({c["src"] for c in cases})
    compiled = dict(zip(srcs, compile_many([(s, "W") for s in srcs])))
    ctx.dist["wrappers-compiled"] = len(srcs)
    ctx.extra["t_compiled"] = round(time.time() - t0, 1)

    mismatches = 0
    reject_checked = 0
    rejected_seen = set()
    runnable = []
    for c in cases:
        r = compiled[c["src"]]
        expect_reject = c["ins"] is None
        if c["kind"] == "wait" and not expect_reject:
            # programs the model rejects (constant 0 without allow_zero, constant > Waiter maximum)
            a = lean_io_cached(c["meta"]["head"] + " | 0:0")
            expect_reject = a == "reject"
        if expect_reject:
            reject_checked += 1
            ctx.case(key=("reject", c["sig"]), nontrivial=True, kind="wait:rejected-program")
            if r["ok"]:
                mismatches += 1
                ctx.report(f"accepted:{c['sig']}", f"{c['sig']}: the design is accepted although the duration is not allowed "
                           "(zero without allow_zero / above the Waiter maximum / no multiple of the clock period)",
                           {"kind": c["kind"], "sig": c["sig"], "wrapper_source": c["src"], "expected": "rejected at compile time",
                            "observed": "accepted"})
            continue
        if not r["ok"]:
            mismatches += 1
            if c["src"] not in rejected_seen:
                rejected_seen.add(c["src"])
                sig, src = c["sig"], c["src"]
                if c["kind"] == "wait" and len(c["meta"].get("waits", [])) > 1:
                    # minimise: a single wait of the program that is rejected on its own
                    rw, mhz = c["meta"]["rw"], c["meta"]["mhz"]
                    singles = [([w], rw, mhz) for w in c["meta"]["waits"]]
                    rs = compile_many([(wait_source(*s1), "W") for s1 in singles])
                    for s1, r1 in zip(singles, rs):
                        if not r1["ok"]:
                            sig, src, r = "wait:" + prog_text(s1[0], mhz), wait_source(*s1), r1
                            break
                sig = canon_rejected(sig)
                ctx.report(f"rejected:{sig}", f"{sig}: the wrapper design is rejected by the compiler ({r['errtype']}: {r['err'][-160:]}) "
                           "although the utility is used within its documented contract",
                           {"kind": c["kind"], "sig": sig, "wrapper_source": src, "expected": "accepted", "observed": r["errtype"],
                            "error": r["err"]})
            continue
        runnable.append(c)

    # model answers and simulation of the emitted VHDL
    answers = lean_io.query("C16", [lean_request(c["kind"], c["meta"], c["ins"]) for c in runnable])
    groups = {}
    for idx, c in enumerate(runnable):
        groups.setdefault(c["src"], []).append(idx)
    gl = sorted(groups.items(), key=lambda kv: -sum(len(runnable[i]["ins"]) for i in kv[1]))
    gres = fork_map(_sim_group, [(compiled[src]["vhdl"], [(runnable[i]["kind"], runnable[i]["meta"], runnable[i]["ins"]) for i in idxs])
                                 for src, idxs in gl], fresh=False, chunk=2)
    sims = [None] * len(runnable)
    for (src, idxs), gr in zip(gl, gres):
        for j, i in enumerate(idxs):
            sims[i] = gr[1][j] if gr[0] == "ok" else gr
    spec_model_diff = 0
    reported = 0
    ctx.extra["t_simulated"] = round(time.time() - t0, 1)
    for c, ans, sim in zip(runnable, answers, sims):
        kind, meta, ins = c["kind"], c["meta"], c["ins"]
        if sim[0] != "ok":
            mismatches += 1
            ctx.report(f"sim-error:{c['sig']}", f"{c['sig']}: the emitted VHDL cannot be executed: {sim[1]}",
                       {"kind": kind, "sig": c["sig"], "wrapper_source": c["src"], "meta": meta, "inputs": ins, "error": sim[1]})
            continue
        impl, n_assert = sim[1]
        model = lean_out(kind, meta, ans, ins)
        spec = spec_case(kind, meta, ins)
        changes = sum(1 for a, b in zip(impl, impl[1:]) if a != b)
        ctx.case(key=(c["sig"], lean_request(kind, meta, ins)), nontrivial=changes >= 2, kind=kind_bucket(c),
                 sample={"case": c["sig"], "inputs": [list(i) for i in ins[:10]], "observed": impl[:10]})
        if model == ["bad-op"]:
            raise_infra(f"model driver rejected the request for {c['sig']}")
        if spec is not None and spec != model:
            # model and closed form disagree: a defect of the machinery (the theorems say they agree), not of cohdl
            spec_model_diff += 1
            i = first_diff(spec, model)
            ctx.notes.append(f"closed-form spec and Lean model disagree on {c['sig']} at clock {i}: {spec[i:i+1]} vs {model[i:i+1]}")
        if n_assert and kind in ("wait", "div", "tog"):
            mismatches += 1
            ctx.report(f"assert:{c['sig']}", f"{c['sig']}: a VHDL assertion of the utility fires on inputs within the contract",
                       {"kind": kind, "sig": c["sig"], "wrapper_source": c["src"], "meta": meta, "inputs": ins})
        bad = impl != model or (spec is not None and impl != spec)
        if not bad:
            continue
        mismatches += 1
        reported += 1
        if reported > 6:
            continue
        report_mismatch(ctx, c, compiled[c["src"]]["vhdl"], impl, model, spec)

    # Duration.count_periods directly
    ctx.extra["t_compared"] = round(time.time() - t0, 1)
    items = cp_cases(ctx) if (not only or "cp" in only.split(",")) else []
    chunks = [items[i:i + 400] for i in range(0, len(items), 400)]
    res = fork_map(_cp_task, [[(a, b, dn / dd) for a, b, dn, dd in ch] for ch in chunks], fresh=False)
    model = lean_io.query("C16", [f"cp {b} {a} {dn} {dd}" for a, b, dn, dd in items])
    impl = []
    for r in res:
        if r[0] != "ok":
            raise_infra("count_periods task failed: " + r[1])
        impl += r[1]
    cp_bad = 0
    for (a, b, dn, dd), mo, im in zip(items, model, impl):
        q = Fraction(b, a)
        ctx.case(key=("cp", a, b, dn, dd), nontrivial=q.denominator != 1, kind="count_periods:" + ("integer-ratio" if q.denominator == 1 else "fraction"))
        if mo != im:
            cp_bad += 1
            if cp_bad <= 3:
                ctx.report(f"count_periods:{b}/{a}:delta={dn}/{dd}",
                           f"Duration(1/{a} s).count_periods(Duration(1/{b} s), allowed_delta={dn}/{dd}) = {im}, the exact ratio {q} "
                           f"rounded to nearest (ties to even) with the relative-error test gives {mo}",
                           {"kind": "cp", "freq_a": a, "freq_b": b, "delta": [dn, dd], "expected": mo, "observed": im})
    mismatches += cp_bad

    ctx.dist["rejected-programs-checked"] = reject_checked
    ctx.obligation("correspondence: emitted designs of the std timing utilities = Lean step functions = closed-form specification, "
                   "every output after every clock; count_periods = rational model",
                   mismatches == 0, detail=f"{len(runnable)} simulated sequences, {len(items)} count_periods calls, {mismatches} mismatches")
    ctx.obligation("consistency: closed-form Python specification = Lean model on every generated sequence",
                   spec_model_diff == 0, detail=f"{spec_model_diff} differences")
    if spec_model_diff:
        raise_infra(f"closed-form specification and Lean model disagree on {spec_model_diff} sequences (defect of the check): {ctx.notes[-1]}")


def canon_rejected(sig):
    """one signature per class of rejected call: the Duration value / clock and the Waiter maximum do not matter"""
    import re
    sig = re.sub(r"\d+ps@\d+MHz", "<duration>", sig)
    sig = re.sub(r"@W\d+(ps)?", "@W", sig)
    return sig


def kind_bucket(c):
    s = c["sig"].split(":")
    return ":".join(s[:2])


_LEAN_CACHE = {}


def lean_io_cached(line):
    if line not in _LEAN_CACHE:
        _LEAN_CACHE[line] = lean_io.query("C16", [line])[0]
    return _LEAN_CACHE[line]


def raise_infra(msg):
    from .common import InfraError
    raise InfraError(msg)


def expected_of(kind, meta, ins):
    """the specification for a sequence: closed form where there is one, else the Lean step function"""
    spec = spec_case(kind, meta, ins)
    if spec is not None:
        return spec
    return lean_out(kind, meta, lean_io.query("C16", [lean_request(kind, meta, ins)])[0], ins)


def report_mismatch(ctx, c, vhdl, impl, model, spec):
    kind, meta, ins = c["kind"], c["meta"], c["ins"]
    exp = spec if spec is not None else model
    i = first_diff(exp, impl)
    if i is None:
        i = first_diff(model, impl)
        exp = model

    def fails(cand):
        try:
            im = sim_case(kind, vhdl, meta, cand)[0]
        except Exception:  # noqa
            return True
        return im != expected_of(kind, meta, cand)

    small = list(ins[: i + 1])
    if fails(small):
        small = shrink_inputs(small, fails)
        # canonical form: values that do not matter are lowered
        small = lower_values(small, fails, lowerable(kind, meta))
    else:
        small = list(ins)
    try:
        im = sim_case(kind, vhdl, meta, small)[0]
    except Exception as e:  # noqa
        im = [f"error: {e}"]
    ex = expected_of(kind, meta, small)
    j = first_diff(ex, im)
    seq = " ".join(":".join(str(x) for x in s) for s in small)
    ctx.report(f"{c['sig']}|{seq}",
               f"{c['sig']}: on the input sequence [{seq}] the emitted design shows {im[j] if j is not None and j < len(im) else im[-1:]} after clock {j} "
               f"where the specification gives {ex[j] if j is not None and j < len(ex) else ex[-1:]}",
               {"kind": kind, "sig": c["sig"], "meta": meta, "inputs": [list(s) for s in small], "clock": j, "expected": ex, "observed": im,
                "wrapper_source": c["src"]})


def lowerable(kind, meta):
    """input fields that may be lowered without leaving the contract (constant parameters and run-time durations stay)"""
    if kind == "delay":
        return [0, 1] if meta["variant"] == "B" else [1]
    return [0]


def lower_values(ins, fails, positions):
    ins = [list(s) for s in ins]
    for idx in range(len(ins)):
        for pos in positions:
            v = ins[idx][pos]
            for cand in (0, 1):
                if cand < v:
                    trial = [list(s) for s in ins]
                    trial[idx][pos] = cand
                    if fails([tuple(s) for s in trial]):
                        ins = trial
                        break
    return [tuple(s) for s in ins]


def replay(ctx, data):
    r = data["replay"]
    kind = r["kind"]
    if kind == "cp":
        im = _cp_task([(r["freq_a"], r["freq_b"], r["delta"][0] / r["delta"][1])])[0]
        mo = lean_io.query("C16", [f"cp {r['freq_b']} {r['freq_a']} {r['delta'][0]} {r['delta'][1]}"])[0]
        print("expected:", mo)
        print("observed:", im)
        return 0 if mo == im else 1
    c = compile_many([(r["wrapper_source"], "W")])[0]
    if "inputs" not in r or "meta" not in r or "error" in r and not c["ok"]:
        print("expected:", r.get("expected"))
        print("observed:", "accepted" if c["ok"] else c["errtype"])
        return 0 if (r.get("expected") == "accepted") == c["ok"] else 1
    if not c["ok"]:
        print("wrapper rejected:", c["errtype"], c["err"][-200:])
        return 1
    ins = [tuple(s) for s in r["inputs"]]
    im, n_assert = sim_case(kind, c["vhdl"], r["meta"], ins)
    ex = expected_of(kind, r["meta"], ins)
    print("inputs  :", " ".join(":".join(str(x) for x in s) for s in ins))
    print("expected:", ",".join(ex))
    print("observed:", ",".join(im), f"(asserts fired: {n_assert})" if n_assert else "")
    return 0 if ex == im and not (n_assert and kind in ("wait", "div", "tog")) else 1
