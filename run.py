#!/venv/bin/python
"""Entry point of every check:   /venv/bin/python run.py {quick|thorough|replay} Cxx [--replay file]

exit 0: property held on everything explored (KNOWN-FINDING lines may be printed)
exit 1: at least one line `VIOLATION property=Cxx replay=<path>` was printed
exit 2: infrastructure error (build failure, audit failure, timeout, parser gap) - never a verdict
"""
import importlib
import json
import os
import sys
import traceback

HERE = os.path.dirname(os.path.abspath(__file__))
if os.path.realpath(sys.executable) != os.path.realpath("/venv/bin/python") and os.path.exists("/venv/bin/python") and not os.environ.get("COHDL_VERIF_NOREEXEC"):
    os.execv("/venv/bin/python", ["/venv/bin/python", os.path.abspath(__file__), *sys.argv[1:]])
sys.path.insert(0, HERE)
os.chdir(HERE)

from harness.common import Ctx, InfraError  # noqa: E402
from harness import lean_io  # noqa: E402


def main(argv):
    if len(argv) < 2 or argv[0] not in ("quick", "thorough", "replay"):
        print(__doc__)
        return 2
    mode, prop = argv[0], argv[1]
    tier = os.environ.get("VERIF_TIER", mode if mode != "replay" else "quick")
    if tier not in ("quick", "thorough"):
        tier = "quick"
    if mode in ("quick", "thorough"):
        tier = mode
    seed = int(os.environ.get("VERIF_SEED", "0") or 0)
    ctx = Ctx(prop, tier, seed)
    try:
        mod = importlib.import_module(f"harness.{prop.lower()}")
        axioms = lean_io.ensure_built(prop)
        if mode == "replay":
            path = argv[argv.index("--replay") + 1]
            data = json.load(open(path))
            return mod.replay(ctx, data)
        if tier == "thorough" and not os.environ.get("COHDL_VERIF_ONLY"):
            lean_io.leanchecker(prop)
            ctx.obligation(f"leanchecker re-check of CohdlVerif.Props.{prop} and its imports", True, kind="kernel-recheck")
        mod.run(ctx)
        code = ctx.finish(lean_io.theorems_for(prop, axioms))
        n_ob = len(ctx.obligations)
        print(f"{prop} {tier} seed={seed}: {ctx.evaluations} evaluations, {len(ctx.distinct)} distinct non-trivial, "
              f"{sum(o['ok'] for o in ctx.obligations)}/{n_ob} obligations, {len(ctx.violations)} violations, "
              f"{len(ctx.known_hit)} known findings", flush=True)
        return code
    except InfraError as e:
        print(f"INFRASTRUCTURE ERROR ({prop}): {e}", file=sys.stderr, flush=True)
        return 2
    except Exception:
        traceback.print_exc()
        print(f"INFRASTRUCTURE ERROR ({prop}): unexpected exception in the check itself", file=sys.stderr, flush=True)
        return 2


if __name__ == "__main__":
    sys.exit(main(sys.argv[1:]))
